"""D5 (C20): SolverParameters.evolventDensity is ignored (evolvent always built with density 10)."""
import sys; sys.path.insert(0, '/repo')
import numpy as np
if not hasattr(np, 'infty'): np.infty = np.inf
from iOpt.solver import Solver
from iOpt.solver_parametrs import SolverParameters
from iOpt.problems.xsquared import XSquared
m = 3
p = XSquared(2); log = []
orig = p.Calculate
def calc(point, fv):
    log.append([float(v) for v in point.floatVariables]); return orig(point, fv)
p.Calculate = calc
Solver(p, SolverParameters(itersLimit=30, evolventDensity=m)).Solve()
bad = [y for y in log if any(abs(((c + 1) * 2**m / 2 - 0.5) - round((c + 1) * 2**m / 2 - 0.5)) > 1e-9 for c in y)]
print('trials', len(log), 'off the 2^-%d cell-centre grid:' % m, len(bad), bad[:2])
if bad:
    print('DEFECT D5'); sys.exit(1)
print('ok')
