"""D6 (C07): x within 1e-9 of 1 but outside the last subinterval is mapped to the last cell (N*m >= 30)."""
import sys; sys.path.insert(0, '/repo')
from iOpt.evolvent.evolvent import Evolvent
N, m = 3, 10
e = Evolvent([0.0] * N, [1.0] * N, N, m)
w = 2.0 ** (-N * m)
x = 1.0 - 1.05 * w            # lies in the last-but-one subinterval [1-2w, 1-w)
assert 1 - 2 * w <= x < 1 - w
y_x, y_mid, y_last = e.GetImage(x), e.GetImage(1.0 - 1.5 * w), e.GetImage(1.0)
print('image(x)', y_x, 'image(midpoint of same subinterval)', y_mid, 'image(1)', y_last)
if list(y_x) != list(y_mid) or list(y_x) == list(y_last):
    print('DEFECT D6'); sys.exit(1)
print('ok')
