"""D7 (C17): an int-typed argument to GetPreimages/GetInverseImage poisons later GetImage results (N=1)."""
import sys; sys.path.insert(0, '/repo')
from iOpt.evolvent.evolvent import Evolvent
e = Evolvent([-1.0], [1.0], 1)
fresh = Evolvent([-1.0], [1.0], 1).GetImage(0.7)
e.GetPreimages([0])
got = e.GetImage(0.7)
print('fresh', fresh, 'after GetPreimages([0])', got)
if list(got) != list(fresh):
    print('DEFECT D7'); sys.exit(1)
print('ok')
