"""D2 (C12): default-argument objects shared between Solver instances."""
import sys; sys.path.insert(0, '/repo')
import numpy as np
if not hasattr(np, 'infty'): np.infty = np.inf   # neutralise D1 so that D2 is observable on its own
from iOpt.solver import Solver
from iOpt.solver_parametrs import SolverParameters
from iOpt.problems.xsquared import XSquared
from iOpt.problems.rastrigin import Rastrigin
a = Solver(XSquared(1), SolverParameters(itersLimit=1))
sa = a.Solve()
va, pa = sa.bestTrials[0].functionValues[0].value, list(sa.bestTrials[0].point.floatVariables)
b = Solver(Rastrigin(1), SolverParameters(itersLimit=1))
sb = b.Solve()
va2, pa2 = sa.bestTrials[0].functionValues[0].value, list(sa.bestTrials[0].point.floatVariables)
print('A before', va, pa, 'A after B ran', va2, pa2, 'same list object:', sa.bestTrials is sb.bestTrials)
if (va, pa) != (va2, pa2) or sa.bestTrials is sb.bestTrials:
    print('DEFECT D2'); sys.exit(1)
print('ok')
