"""D1 (C03): Solver cannot be constructed on NumPy>=2 (np.infty removed) -> no search can run/terminate."""
import sys; sys.path.insert(0, '/repo')
from iOpt.solver import Solver
from iOpt.solver_parametrs import SolverParameters
from iOpt.problems.xsquared import XSquared
try:
    s = Solver(XSquared(1), SolverParameters(itersLimit=5))
    sol = s.Solve()
except AttributeError as e:
    print('DEFECT D1:', e); sys.exit(1)
assert sol.numberOfGlobalTrials <= 5
print('ok')
