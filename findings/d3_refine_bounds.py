"""D3 (C05): local refinement evaluates outside the box and returns a point outside it."""
import sys; sys.path.insert(0, '/repo')
import numpy as np
if not hasattr(np, 'infty'): np.infty = np.inf
from iOpt.solver import Solver
from iOpt.solver_parametrs import SolverParameters
from iOpt.problem import Problem
class Lin(Problem):
    def __init__(self):
        super().__init__()
        self.numberOfFloatVariables = 2; self.numberOfObjectives = 1; self.numberOfConstraints = 0
        self.floatVariableNames = ['a', 'b']
        self.lowerBoundOfFloatVariables = [0.0, 0.0]; self.upperBoundOfFloatVariables = [1.0, 1.0]
        self.log = []
    def Calculate(self, point, fv):
        y = [float(v) for v in point.floatVariables]; self.log.append(y)
        fv.value = y[0] + y[1]; return fv
p = Lin()
sol = Solver(p, SolverParameters(itersLimit=200, refineSolution=True)).Solve()
out = [y for y in p.log if min(y) < 0 or max(y) > 1]
pt = [float(v) for v in sol.bestTrials[0].point.floatVariables]
print('evaluations outside box:', len(out), 'returned point', pt)
if out or min(pt) < 0 or max(pt) > 1:
    print('DEFECT D3'); sys.exit(1)
print('ok')
