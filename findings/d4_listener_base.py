"""D4 (C13): a listener that does not override OnMethodStop makes Solve() raise TypeError."""
import sys; sys.path.insert(0, '/repo')
import numpy as np
if not hasattr(np, 'infty'): np.infty = np.inf
from iOpt.solver import Solver
from iOpt.solver_parametrs import SolverParameters
from iOpt.problems.xsquared import XSquared
from iOpt.method.listener import Listener
class L(Listener):
    def OnEndIteration(self, pts, sol): pass
s = Solver(XSquared(1), SolverParameters(itersLimit=3)); s.AddListener(L())
try:
    s.Solve()
except TypeError as e:
    print('DEFECT D4:', e); sys.exit(1)
print('ok')
