#!/bin/sh
# Builds the overlay venv /verif/.venv offline: /venv's packages (numpy, scipy, depq, iOpt deps)
# plus z3-solver, cvc5, crosshair-tool from the wheelhouse.  Idempotent.
set -e
cd "$(dirname "$0")"
V=.venv
if [ ! -x "$V/bin/python" ] || ! "$V/bin/python" -c "import z3, cvc5, crosshair, numpy, depq, jsonschema" >/dev/null 2>&1; then
  rm -rf "$V"
  /venv/bin/python -m venv "$V"
  SP=$("$V/bin/python" -c "import sysconfig; print(sysconfig.get_paths()['purelib'])")
  printf "import site; site.addsitedir('/venv/lib/python3.12/site-packages')\n" > "$SP/_verif_overlay.pth"
  PIP_NO_INDEX=1 "$V/bin/pip" install -q --no-index --find-links /opt/veriftools/wheels z3-solver cvc5 crosshair-tool jsonschema
fi
"$V/bin/python" -c "import z3, cvc5, crosshair, numpy, depq, jsonschema; print('verif venv ok: z3', z3.get_version_string())"
