"""Slice the per-level loop bodies of Evolvent.__GetYonX / __GetXonY out of the *current* source.

Nothing is transcribed by hand: the statements are taken verbatim from /repo/iOpt/evolvent/evolvent.py via
`ast`, wrapped into step functions inside a synthetic `class Evolvent` (so private names mangle the same
way) and compiled with the real module's globals (so the shims installed there apply).  If the method no
longer has the expected shape the slicer raises SliceError -> the check exits with the harness-error code.
"""
import ast
import copy
import hashlib
import inspect


class SliceError(Exception):
    pass


def _find_method(tree, cls, name):
    for node in tree.body:
        if isinstance(node, ast.ClassDef) and node.name == cls:
            for f in node.body:
                if isinstance(f, ast.FunctionDef) and f.name == name:
                    return f
    raise SliceError('method %s.%s not found' % (cls, name))


def _is_density_loop(node):
    """The level loop: a top-level `for ... in range(...)` whose body calls the node / number rule."""
    if not isinstance(node, ast.For):
        return False
    it = node.iter
    if not (isinstance(it, ast.Call) and isinstance(it.func, ast.Name) and it.func.id == 'range'):
        return False
    src = ast.unparse(node)
    return '__CalculateNode' in src or '__CalculateNumbr' in src


def _names_assigned(stmts):
    out = []
    for s in stmts:
        for n in ast.walk(s):
            if isinstance(n, ast.Name) and isinstance(n.ctx, ast.Store) and n.id not in out:
                out.append(n.id)
    return out


def slice_evolvent(module, source_path):
    """Returns dict with step/init functions for the forward and inverse descents and source metadata."""
    src = open(source_path, encoding='utf-8').read()
    tree = ast.parse(src)
    out = {'source_sha256': hashlib.sha256(src.encode()).hexdigest(), 'functions': []}

    def build(method_name, alias, state_names, extra=()):
        f = _find_method(tree, 'Evolvent', method_name)
        loops = [s for s in f.body if _is_density_loop(s)]
        if len(loops) != 1:
            raise SliceError('%s: expected exactly one top-level level loop (calling the node rule), found %d'
                             % (method_name, len(loops)))
        loop = loops[0]
        if loop.orelse:
            raise SliceError('%s: loop has an else clause' % method_name)
        idx = f.body.index(loop)
        # N == 1 early return is the first `if`; init statements are what precedes the loop after it
        pre = f.body[:idx]
        post = f.body[idx + 1:]
        jname = loop.target.id if isinstance(loop.target, ast.Name) else None
        if jname is None:
            raise SliceError('%s: loop target is not a simple name' % method_name)
        argnames = [a.arg for a in f.args.args][1:]
        body_assigned = _names_assigned(loop.body)
        pre_assigned = _names_assigned([s for s in pre if not isinstance(s, ast.If)])
        for s in state_names:
            if s not in pre_assigned and s not in argnames:
                raise SliceError('%s: expected state variable %r is not initialised before the loop' % (method_name, s))
        # step: def step(self, <args>, <state...>, j): <body>; return (<state...>)
        ret = ast.Return(value=ast.Tuple(elts=[ast.Name(id=n, ctx=ast.Load()) for n in state_names], ctx=ast.Load()))
        for n in extra:
            if n not in body_assigned:
                raise SliceError('%s: expected the loop body to assign %r' % (method_name, n))
        ret_step = ast.Return(value=ast.Tuple(elts=[ast.Name(id=n, ctx=ast.Load()) for n in list(state_names) + list(extra)],
                                              ctx=ast.Load()))
        step = ast.FunctionDef(
            name=alias + '_step',
            args=ast.arguments(posonlyargs=[], args=[ast.arg(arg='self')] + [ast.arg(arg=a) for a in argnames] +
                               [ast.arg(arg=n) for n in state_names] + [ast.arg(arg=jname)],
                               kwonlyargs=[], kw_defaults=[], defaults=[]),
            # the body runs inside a one-pass loop so that a `break` / `continue` written in the real loop ends this level (the state reached
            # so far is returned); variables the lemmas read are pre-set so that an early exit is visible as a value, not as an UnboundLocalError
            body=[ast.Assign(targets=[ast.Name(id=n, ctx=ast.Store())], value=ast.Constant(value=None)) for n in extra] +
                 [ast.For(target=ast.Name(id='_once', ctx=ast.Store()), iter=ast.Tuple(elts=[ast.Constant(value=0)], ctx=ast.Load()),
                          body=copy.deepcopy(loop.body), orelse=[])] + [ret_step], decorator_list=[], type_params=[])
        # init: the statements before the loop, minus annotations-only and the N==1 shortcut
        init_body = [copy.deepcopy(s) for s in pre
                     if not (isinstance(s, ast.AnnAssign) and s.value is None) and not isinstance(s, ast.If)]
        init = ast.FunctionDef(
            name=alias + '_init',
            args=ast.arguments(posonlyargs=[], args=[ast.arg(arg='self')] + [ast.arg(arg=a) for a in argnames],
                               kwonlyargs=[], kw_defaults=[], defaults=[]),
            body=init_body + [copy.deepcopy(ret)], decorator_list=[], type_params=[])
        n1 = [s for s in pre if isinstance(s, ast.If)]
        out['functions'].append({'method': 'Evolvent.' + method_name, 'lines': [f.lineno, f.end_lineno],
                                 'loop_lines': [loop.lineno, loop.end_lineno], 'loop_iter': ast.unparse(loop.iter), 'state': state_names,
                                 'args': argnames, 'post': [ast.unparse(s) for s in post],
                                 'n1_shortcut': [ast.unparse(s) for s in n1],
                                 'body_assigned': body_assigned})
        return [step, init]

    fwd = build('__GetYonX', 'fwd', ['d', 'r', 'it', 'iw', 'iu', 'iv'], extra=['iis'])
    inv = build('__GetXonY', 'inv', ['r', 'r1', 'x', 'it', 'w', 'u', 'v'], extra=['iis'])
    cls = ast.ClassDef(name='Evolvent', bases=[], keywords=[], body=fwd + inv, decorator_list=[], type_params=[])
    mod = ast.Module(body=[cls], type_ignores=[])
    ast.fix_missing_locations(mod)
    code = compile(mod, '<sliced from %s>' % source_path, 'exec')
    ns = {}
    exec(code, module.__dict__, ns)
    syn = ns['Evolvent']
    out['fwd_step'] = syn.fwd_step
    out['fwd_init'] = syn.fwd_init
    out['inv_step'] = syn.inv_step
    out['inv_init'] = syn.inv_init
    out['generated_source'] = ast.unparse(mod)
    return out
