"""Check runner: parallel jobs, counterexample confirmation by native replay, known findings, evidence, exit codes.

exit 0  property held on everything explored (KNOWN-FINDING lines possible)
exit 1  a violation that was replayed against the unmodified code in /repo  (line: VIOLATION property=<id> replay=<path>)
exit 2  harness / slicer / shim error (nothing is claimed)
exit 3  inconclusive: solver `unknown`, budget exhausted, or a solver model that did not reproduce natively
"""
import hashlib
import inspect
import json
import multiprocessing as mp
import os
import subprocess
import sys
import time
import traceback

VERIF = os.path.dirname(os.path.dirname(os.path.abspath(__file__)))
REPO = os.environ.get('IOPT_REPO', '/repo')
NATIVE_PY = '/venv/bin/python'


def _run_job(job):
    fn, args = job
    t0 = time.time()
    try:
        r = fn(*args)
        if not isinstance(r, dict):
            r = {'result': r}
        r.setdefault('job', '%s%r' % (fn.__name__, tuple(a for a in args if isinstance(a, (int, str, float, tuple)))))
        r['job_wall_s'] = round(time.time() - t0, 3)
        return r
    except BaseException as e:  # noqa
        return {'job': '%s%r' % (fn.__name__, args), 'error': '%s: %s' % (type(e).__name__, e),
                'traceback': traceback.format_exc(), 'job_wall_s': round(time.time() - t0, 3)}


def sha_of_function(obj):
    try:
        src = inspect.getsource(obj)
    except (OSError, TypeError):
        return None
    return hashlib.sha256(src.encode()).hexdigest()[:16]


class Runner:
    def __init__(self, pid, design_ref='', level='model_checking'):
        self.pid = pid
        self.level = level
        self.design_ref = design_ref
        self.tier = os.environ.get('VERIF_TIER', 'quick')
        argv = sys.argv[1:]
        if '--tier' in argv:
            self.tier = argv[argv.index('--tier') + 1]
        if self.tier not in ('quick', 'thorough'):
            self.tier = 'quick'
        try:
            self.seed = int(os.environ.get('VERIF_SEED', '0'))
        except ValueError:
            self.seed = 0
        self.t0 = time.time()
        self.jobs = []          # job summaries
        self.errors = []
        self.inconclusive = []
        self.violations = []    # confirmed, not known
        self.known_hits = []
        self.replays_run = 0
        self.validations = 0    # pinned-input validations of the encoding against native runs
        self.functions = {}
        self.stubs = []
        self.assumptions = []
        self.bounds = {}
        self.outside = []
        self.samples = []
        self.extra = {}
        self.cex_unconfirmed = []
        kf = os.path.join(VERIF, 'known_findings.json')
        self.known = []
        if os.path.exists(kf):
            self.known = [e for e in json.load(open(kf)).get('entries', []) if e.get('property') == pid]
        self.cores = int(os.environ.get('VERIF_CORES', str(os.cpu_count() or 4)))

    @property
    def quick(self):
        return self.tier == 'quick'

    # ------------------------------------------------------------------ bookkeeping
    def encode(self, obj, name=None):
        """Record a repository function that is executed symbolically."""
        n = name or getattr(obj, '__qualname__', str(obj))
        self.functions[n] = sha_of_function(obj)

    def stub(self, text):
        if text not in self.stubs:
            self.stubs.append(text)

    def assume(self, text):
        if text not in self.assumptions:
            self.assumptions.append(text)

    def bound(self, **kw):
        self.bounds.update(kw)

    def not_covered(self, text):
        if text not in self.outside:
            self.outside.append(text)

    # ------------------------------------------------------------------ running
    def parallel(self, jobs, chunks=1):
        """jobs: list of (function, args).  Functions run in forked workers and return summary dicts."""
        if not jobs:
            return []
        n = min(self.cores, len(jobs))
        if n <= 1:
            res = [_run_job(j) for j in jobs]
        else:
            ctx = mp.get_context('fork')
            prog = os.environ.get('VERIF_PROGRESS')
            res = []
            with ctx.Pool(n, maxtasksperchild=None) as pool:
                for r in pool.imap_unordered(_run_job, jobs, chunksize=chunks):
                    res.append(r)
                    if prog:
                        print('  [%d/%d %.0fs] %s: paths=%s cex=%s %s%s' % (len(res), len(jobs), r.get('job_wall_s', 0), r.get('job'), r.get('paths'),
                              r.get('n_cex'), r.get('inconclusive') or '', r.get('error') or ''), flush=True)
            res.sort(key=lambda r: str(r.get('job')))
        for r in res:
            self.add(r)
        return res

    def run(self, fn, *args):
        r = _run_job((fn, args))
        self.add(r)
        return r

    def add(self, r):
        self.jobs.append(r)
        if r.get('error'):
            self.errors.append(r)
        if r.get('inconclusive'):
            self.inconclusive.append('%s: %s' % (r.get('job'), r['inconclusive']))
        if r.get('n_unknown_obligations'):
            self.inconclusive.append('%s: solver returned unknown on %d obligation(s): %s'
                                     % (r.get('job'), r['n_unknown_obligations'], r.get('unknown_obligations')))
        for s in r.get('samples', [])[:2]:
            if len(self.samples) < 12:
                self.samples.append({'job': r.get('job'), **s} if isinstance(s, dict) else {'job': r.get('job'), 'sample': s})

    def candidates(self):
        out = []
        for r in self.jobs:
            for c in r.get('cex', []):
                out.append((r, c))
        return out

    # ------------------------------------------------------------------ replay
    def write_replay(self, tag, script):
        d = os.path.join(VERIF, 'replays')
        os.makedirs(d, exist_ok=True)
        h = hashlib.sha256(script.encode()).hexdigest()[:10]
        p = os.path.join(d, '%s-%s-%s.py' % (self.pid, tag, h))
        with open(p, 'w') as f:
            f.write(script)
        return p

    def run_replay(self, path, timeout=150):
        """Runs a stand-alone replay with the repository's own interpreter, no shims.
        Convention: exit 1 = the violation reproduces; exit 0 = it does not."""
        self.replays_run += 1
        env = dict(os.environ)
        env['PYTHONDONTWRITEBYTECODE'] = '1'
        env['IOPT_REPO'] = REPO
        try:
            p = subprocess.run([NATIVE_PY, '-W', 'ignore', path], capture_output=True, text=True, timeout=timeout, env=env)
        except subprocess.TimeoutExpired:
            return None, 'replay timed out'
        out = (p.stdout + p.stderr)[-2000:]
        if p.returncode == 1:
            # a replay that crashes also exits 1: only an explicit REPRODUCED line on stdout counts as a confirmation
            if 'REPRODUCED' in p.stdout:
                return True, out
            return None, 'replay exited 1 without a REPRODUCED line (crash?): ' + out[-600:]
        if p.returncode == 0:
            return False, out
        return None, out

    def confirmed(self, key, what, replay_path):
        """A violation reproduced natively: known finding or VIOLATION."""
        for e in self.known:
            if e.get('kind') == 'finding' and e.get('key') == key:
                if key not in [k for k, _ in self.known_hits]:
                    self.known_hits.append((key, e.get('what', what)))
                return 'known'
        if key not in [v['key'] for v in self.violations]:
            self.violations.append({'key': key, 'what': what, 'replay': replay_path})
        return 'violation'

    def unconfirmed(self, label, why):
        self.cex_unconfirmed.append({'label': label, 'why': why})

    # ------------------------------------------------------------------ finish
    def totals(self):
        t = {'paths': 0, 'decisions': 0, 'queries': 0, 'solver_s': 0.0, 'obligations': 0, 'discharged': 0,
             'dead_paths': 0, 'unknown_branches': 0}
        for r in self.jobs:
            for k in t:
                v = r.get(k)
                if isinstance(v, (int, float)):
                    t[k] += v
        t['solver_s'] = round(t['solver_s'], 2)
        return t

    def finish(self, claim, vacuity=None, extra=None):
        t = self.totals()
        tags = {}
        for r in self.jobs:
            for k, v in (r.get('tags') or {}).items():
                tags[k] = tags.get(k, 0) + v
        missing = [k for k in (vacuity or []) if not tags.get(k)]
        if missing and not self.errors:
            self.inconclusive.append('vacuity: no feasible path reached case class(es) %s' % missing)
        code = 0
        if self.violations:          # a violation replayed natively stands whatever else went wrong in other jobs
            code = 1
        elif self.errors:
            code = 2
        elif self.inconclusive or self.cex_unconfirmed:
            code = 3
        wall = round(time.time() - self.t0, 2)
        per_job = []
        for r in self.jobs:
            per_job.append({k: r.get(k) for k in ('job', 'mode', 'paths', 'decisions', 'queries', 'solver_s', 'obligations',
                                                   'discharged', 'n_cex', 'inconclusive', 'error', 'job_wall_s', 'bounds')
                            if r.get(k) is not None})
        samples = self.samples[:12] or [{'note': 'no path samples recorded', 'jobs': [j.get('job') for j in self.jobs[:5]]}]
        cov = {
            'states': max(t['paths'], 0),
            'transitions': max(t['decisions'], 0),
            'traces_validated_against_impl': self.replays_run + self.validations,
            'samples': samples,
            'obligations': t['obligations'],
            'discharged': t['discharged'],
            'solver_queries': t['queries'],
            'solver_seconds': t['solver_s'],
            'dead_paths_discarded': t['dead_paths'],
            'branches_with_unknown_feasibility_explored_anyway': t['unknown_branches'],
            'jobs': len(self.jobs),
            'functions_encoded': self.functions,
            'stubs': self.stubs,
            'bounds': self.bounds,
            'outside_the_claim': self.outside,
            'vacuity_witnesses': tags,
            'claim': claim + ' -- within the stated bounds; floats are modelled as reals (DESIGN.md 3.1).',
            'verdict': {0: 'held', 1: 'violation', 2: 'harness-error', 3: 'inconclusive'}[code],
            'known_findings_hit': [k for k, _ in self.known_hits],
            'violations': self.violations,
            'inconclusive_reasons': self.inconclusive[:20],
            'unconfirmed_counterexamples': self.cex_unconfirmed[:10],
            'errors': [{'job': e.get('job'), 'error': e.get('error')} for e in self.errors[:10]],
            'per_job': per_job[:400],
            'exhaustive': False,
            'checker_cmd': 'z3 %s via /verif/.venv (symex.core.Explorer)' % _z3_version(),
            'trusted_base': ['z3', 'CPython', 'symex proxies and shims (validated against native runs on pinned inputs)'],
        }
        if self.level != 'model_checking':
            cov['evaluations'] = max(t['obligations'], 1)
            cov['distinct_nontrivial'] = max(t['discharged'], 0)
            cov['rule'] = 'one obligation = one solver query (pc /\\ not property) on one path of one job'
        if extra:
            cov.update(extra)
        cov.update(self.extra)
        ev = {
            'property_id': self.pid, 'tier': self.tier, 'seed': self.seed, 'level': self.level,
            'coverage': cov, 'assumptions': self.assumptions, 'wall_s': wall, 'violations': len(self.violations),
        }
        d = os.environ.get('VERIF_EVIDENCE_DIR') or os.path.join(VERIF, 'evidence')      # (the override is for mutant sweeps only)
        os.makedirs(d, exist_ok=True)
        tmp = os.path.join(d, '.%s.json.tmp' % self.pid)
        with open(tmp, 'w') as f:
            json.dump(ev, f, indent=1, default=str)
        os.replace(tmp, os.path.join(d, '%s.json' % self.pid))
        # ---- console
        print('[%s %s] jobs=%d paths=%d obligations=%d discharged=%d queries=%d solver=%.1fs wall=%.1fs'
              % (self.pid, self.tier, len(self.jobs), t['paths'], t['obligations'], t['discharged'], t['queries'],
                 t['solver_s'], wall))
        for k, what in self.known_hits:
            print('KNOWN-FINDING: property=%s %s' % (self.pid, what))
        for e in self.errors[:5]:
            print('HARNESS-ERROR in %s: %s' % (e.get('job'), e.get('error')))
            tb = e.get('traceback')
            if tb:
                print(tb[-1500:])
        for v in self.violations:
            print('violation: %s' % v['what'])
            print('VIOLATION property=%s replay=%s' % (self.pid, v['replay']))
        if code == 3:
            for s in self.inconclusive[:10]:
                print('INCONCLUSIVE: %s' % s)
            for c in self.cex_unconfirmed[:10]:
                print('INCONCLUSIVE: solver model for %r did not reproduce natively: %s' % (c['label'], c['why']))
        print('[%s] verdict=%s exit=%d' % (self.pid, cov['verdict'], code))
        sys.stdout.flush()
        sys.exit(code)


def _z3_version():
    try:
        import z3
        return z3.get_version_string()
    except Exception:
        return '?'


def fresh_repo_import():
    """Make sure the repository's modules are imported from /repo's current working tree."""
    os.environ['PYTHONDONTWRITEBYTECODE'] = '1'
    sys.dont_write_bytecode = True
    if REPO in sys.path:
        sys.path.remove(REPO)
    sys.path.insert(0, REPO)
    for k in list(sys.modules):
        if k == 'iOpt' or k.startswith('iOpt.'):
            del sys.modules[k]
