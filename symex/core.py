"""symex.core -- proxy-based symbolic execution of real Python code (DFS by re-execution).

The code under analysis is the repository's own byte-code, run on the real interpreter.  Numbers that
depend on the symbolic inputs are `Sym` proxies wrapping z3 terms (Python int -> Int, float -> Real,
see DESIGN.md section 3.1).  A branch on a symbolic condition (`SymBool.__bool__`) asks the solver which
sides are feasible under the current path condition; the harness function is re-executed once per
feasible path with the decision prefix replayed, so `Explorer.explore` ends with every feasible path
run exactly once (or reports `inconclusive`).  On each path the harness states obligations with
`Explorer.prove(cond, label)`: discharged iff  pc /\\ not cond  is unsat.

Nothing here raises an exception to steer a path through the code under test (Process.Solve swallows
BaseException): an unsatisfiable assumption sets `dead`, execution continues on arbitrary branches
under a decision budget and the path is discarded by the harness.
"""
import fractions
import math
import time

import z3

INF = float('inf')

CUR = None  # the active Explorer (one per process)


class HarnessError(Exception):
    """The harness / shim met something it does not model (never a verdict about the code)."""


class DeadPathBudget(BaseException):
    """Raised only on a path already marked dead, to get out of runaway loops."""


# ----------------------------------------------------------------------------------------------
# uninterpreted arithmetic for ABSTRACT mode
MULF = z3.Function('mulF', z3.RealSort(), z3.RealSort(), z3.RealSort())
DIVF = z3.Function('divF', z3.RealSort(), z3.RealSort(), z3.RealSort())
_ROOTF = {}
_POWF = {}


def rootF(n):
    if n not in _ROOTF:
        _ROOTF[n] = z3.Function('rootF_%d' % n, z3.RealSort(), z3.RealSort())
    return _ROOTF[n]


def powF(n):
    if n not in _POWF:
        _POWF[n] = z3.Function('powF_%d' % n, z3.RealSort(), z3.RealSort())
    return _POWF[n]


def is_int(t):
    return t.sort().kind() == z3.Z3_INT_SORT


def _const_of(t):
    """Fraction value of a numeral term, else None."""
    if z3.is_int_value(t):
        return fractions.Fraction(t.as_long())
    if z3.is_rational_value(t):
        return fractions.Fraction(t.numerator_as_long(), t.denominator_as_long())
    return None


def to_real(t):
    if is_int(t):
        c = _const_of(t)
        if c is not None:
            return z3.RealVal(c)
        return z3.ToReal(t)
    return t


def lift(v):
    """Python / numpy number -> z3 term (exact)."""
    if isinstance(v, Sym):
        return v.term()
    if isinstance(v, bool):
        return z3.IntVal(int(v))
    if isinstance(v, int):
        return z3.IntVal(v)
    if isinstance(v, float):
        if v != v or v in (INF, -INF):
            raise HarnessError('arithmetic on a non-finite float %r' % v)
        return z3.RealVal(fractions.Fraction(v))
    if isinstance(v, fractions.Fraction):
        return z3.RealVal(v)
    if hasattr(v, 'item') and getattr(v, 'shape', None) == ():
        return lift(v.item())
    if z3.is_expr(v):
        return v
    raise HarnessError('cannot lift %r of type %s' % (v, type(v)))


def coerce(a, b):
    if is_int(a) and not is_int(b):
        a = to_real(a)
    elif is_int(b) and not is_int(a):
        b = to_real(b)
    return a, b


def val(x):
    """z3 term of a Python number or Sym (for use in harness assertions)."""
    return lift(x)


def rval(x):
    return to_real(lift(x))


# ----------------------------------------------------------------------------------------------
class SymBool:
    __slots__ = ('t',)
    __array_ufunc__ = None

    def __init__(self, t):
        self.t = t

    def __bool__(self):
        return CUR.decide(self.t)

    def _o(self, o):
        return o.t if isinstance(o, SymBool) else z3.BoolVal(bool(o))

    def __and__(self, o):
        return SymBool(z3.And(self.t, self._o(o)))

    __rand__ = __and__

    def __or__(self, o):
        return SymBool(z3.Or(self.t, self._o(o)))

    __ror__ = __or__

    def __invert__(self):
        return SymBool(z3.Not(self.t))

    def __eq__(self, o):
        return SymBool(self.t == self._o(o))

    def __ne__(self, o):
        return SymBool(self.t != self._o(o))

    __hash__ = None

    def __deepcopy__(self, memo):
        return self

    def __repr__(self):
        return 'SymBool(%s)' % self.t


def tbool(x):
    """z3 Bool term of a Python bool or SymBool."""
    if isinstance(x, SymBool):
        return x.t
    return z3.BoolVal(bool(x))


class Sym:
    """A number that depends on symbolic inputs.

    Value = t            (d is None), or
          = t / d        with d a Real term that is > 0 on the current path (rational-function mode, Explorer(ratfun=True)):
            quotients are kept as numerator/denominator pairs and comparisons are cross-multiplied, so the solver sees
            polynomial constraints over the inputs only instead of one purification variable per division."""
    __slots__ = ('t', 'd', '_q')
    __array_ufunc__ = None          # numpy scalars defer to our reflected operators
    __array_priority__ = 1000

    def __init__(self, t, d=None):
        self.t = t
        self.d = d
        self._q = None

    # -- helpers
    @property
    def is_int(self):
        return self.d is None and is_int(self.t)

    def const(self):
        if self.d is not None:
            return None
        return _const_of(self.t)

    def term(self):
        """A single z3 term for the value (a quotient is purified on demand: q*d = t)."""
        if self.d is None:
            return self.t
        if self._q is None:
            q = CUR.fresh_real('q')
            CUR.assume_def(q * self.d == to_real(self.t))
            self._q = q
        return self._q

    def _lin(self, o, f, rev=False):
        if self.d is not None or (isinstance(o, Sym) and o.d is not None):
            return _rf_add(self, o, f, rev)
        a, b = self.t, lift(o)
        if rev:
            a, b = b, a
        a, b = coerce(a, b)
        ca, cb = _const_of(a), _const_of(b)
        if ca is not None and cb is not None:
            r = f(ca, cb)
            return Sym(z3.IntVal(int(r)) if (is_int(a) and r.denominator == 1) else z3.RealVal(r))
        return Sym(f(a, b))

    def __add__(self, o):
        if isinstance(o, float) and o in (INF, -INF):
            return o
        return self._lin(o, lambda a, b: a + b)

    def __radd__(self, o):
        if isinstance(o, float) and o in (INF, -INF):
            return o
        return self._lin(o, lambda a, b: a + b, True)

    def __sub__(self, o):
        return self._lin(o, lambda a, b: a - b)

    def __rsub__(self, o):
        return self._lin(o, lambda a, b: a - b, True)

    def __mul__(self, o):
        if self.d is not None or (isinstance(o, Sym) and o.d is not None):
            return _rf_mul(self, o)
        return Sym(_mul(self.t, lift(o)))

    def __rmul__(self, o):
        if self.d is not None or (isinstance(o, Sym) and o.d is not None):
            return _rf_mul(self, o)
        return Sym(_mul(lift(o), self.t))

    def __truediv__(self, o):
        if CUR.ratfun or self.d is not None or (isinstance(o, Sym) and o.d is not None):
            return _rf_div(self, o)
        return _truediv(self.t, lift(o))

    def __rtruediv__(self, o):
        if CUR.ratfun or self.d is not None:
            return _rf_div(o, self)
        return _truediv(lift(o), self.t)

    def __floordiv__(self, o):
        return _floordiv(self.t, lift(o))

    def __rfloordiv__(self, o):
        return _floordiv(lift(o), self.t)

    def __mod__(self, o):
        return _mod(self.t, lift(o))

    def __rmod__(self, o):
        return _mod(lift(o), self.t)

    def __neg__(self):
        c = _const_of(self.t)
        if c is not None:
            return Sym(z3.IntVal(int(-c)) if is_int(self.t) else z3.RealVal(-c), self.d)
        return Sym(-self.t, self.d)

    def __pos__(self):
        return self

    def __abs__(self):
        # fork on the sign: z3's NRA is far better without If-terms (DESIGN 2.3)
        if CUR.decide(self.t >= 0):
            return self
        return -self

    def _cmp(self, o, f, pf):
        if isinstance(o, float) and (o in (INF, -INF) or o != o):
            return pf(0.0, o)          # any finite value vs +-inf / nan
        if o is None or isinstance(o, (str, bytes, tuple, list, dict)):
            return NotImplemented
        if self.d is not None or (isinstance(o, Sym) and o.d is not None):
            a, da = _rf_parts(self)
            b, db = _rf_parts(o)
            if not (da is not None and db is not None and da.get_id() == db.get_id()):
                if db is not None:
                    a = _mul(a, db)
                if da is not None:
                    b = _mul(b, da)
            return SymBool(f(a, b))
        a, b = coerce(self.t, lift(o))
        ca, cb = _const_of(a), _const_of(b)
        if ca is not None and cb is not None:
            return pf(ca, cb)
        if CUR is not None and CUR.mode == 'ABSTRACT':
            # rootF_n(t) compared with a non-negative constant c is exactly t compared with c^n (keeps the abstraction honest on thresholds)
            ra, rb = _root_arg(a), _root_arg(b)
            if ra is not None and cb is not None and cb >= 0:
                return SymBool(f(ra[1], z3.RealVal(cb ** ra[0])))
            if rb is not None and ca is not None and ca >= 0:
                return SymBool(f(z3.RealVal(ca ** rb[0]), rb[1]))
        return SymBool(f(a, b))

    def __lt__(self, o):
        return self._cmp(o, lambda a, b: a < b, lambda a, b: a < b)

    def __le__(self, o):
        return self._cmp(o, lambda a, b: a <= b, lambda a, b: a <= b)

    def __gt__(self, o):
        return self._cmp(o, lambda a, b: a > b, lambda a, b: a > b)

    def __ge__(self, o):
        return self._cmp(o, lambda a, b: a >= b, lambda a, b: a >= b)

    def __eq__(self, o):
        r = self._cmp(o, lambda a, b: a == b, lambda a, b: a == b)
        return False if r is NotImplemented else r

    def __ne__(self, o):
        r = self._cmp(o, lambda a, b: a != b, lambda a, b: a != b)
        return True if r is NotImplemented else r

    __hash__ = None

    def __bool__(self):
        return CUR.decide(self.t != 0)

    def __pow__(self, e, mod=None):
        if mod is not None:
            raise HarnessError('3-argument pow')
        if isinstance(e, Sym) and e.d is not None:
            raise HarnessError('symbolic exponent')
        if isinstance(e, Sym):
            c = e.const()
            if c is None:
                raise HarnessError('symbolic exponent')
            e = int(c) if (e.is_int or c.denominator == 1) else float(c)
        if isinstance(e, float) and e == int(e) and abs(e) < 64:
            e = int(e)
        if isinstance(e, int):
            if e < 0:
                return 1.0 / self.__pow__(-e)
            return _ipow(self, e)
        if isinstance(e, float) and e > 0:
            n = round(1.0 / e)
            if n >= 1 and abs(1.0 / n - e) < 1e-15:
                return _root(self, n)
        raise HarnessError('pow with exponent %r is not modelled' % (e,))

    def __rpow__(self, b):
        raise HarnessError('symbolic exponent')

    def __deepcopy__(self, memo):
        return self

    def __copy__(self):
        return self

    def __index__(self):
        if self.d is not None or not is_int(self.t):
            raise TypeError('Sym real used as index')
        c = _const_of(self.t)
        if c is not None:
            return int(c)
        return CUR.concretize(self.t)

    def __int__(self):
        c = self.const()
        if c is not None:
            return int(c)
        raise HarnessError('int() of a symbolic value reached the C level (use shims.sym_int)')

    def __float__(self):
        c = self.const()
        if c is not None:
            return float(c)
        raise HarnessError('float() of a symbolic value (realisation at a C boundary)')

    def __format__(self, spec):
        return CUR.format_sym(self, spec)

    def __str__(self):
        return CUR.format_sym(self, '') if CUR is not None else 'Sym(%s)' % self.t

    def __repr__(self):
        return 'Sym(%s)' % self.t if self.d is None else 'Sym(%s / %s)' % (self.t, self.d)


# -- rational-function arithmetic (denominators are > 0 on the path)
def _rf_parts(v):
    if isinstance(v, Sym):
        return to_real(v.t), v.d
    return to_real(lift(v)), None


def _rf_norm(num, den):
    if den is not None:
        cd = _const_of(den)
        if cd is not None:
            num = _mul(num, z3.RealVal(1 / cd))
            den = None
    return Sym(num, den)


def _rf_add(x, o, f, rev):
    a, da = _rf_parts(x)
    b, db = _rf_parts(o)
    if rev:
        a, da, b, db = b, db, a, da
    if da is not None and db is not None and da.get_id() == db.get_id():
        return _rf_norm(f(a, b), da)
    if da is None:
        return _rf_norm(f(_mul(a, db), b), db)
    if db is None:
        return _rf_norm(f(a, _mul(b, da)), da)
    return _rf_norm(f(_mul(a, db), _mul(b, da)), _mul(da, db))


def _rf_mul(x, o):
    a, da = _rf_parts(x)
    b, db = _rf_parts(o)
    # cheap cancellations  (a/da) * (b/db)
    if db is not None and a.get_id() == db.get_id():
        return _rf_norm(b, da)
    if da is not None and b.get_id() == da.get_id():
        return _rf_norm(a, db)
    num = _mul(a, b)
    den = da if db is None else db if da is None else _mul(da, db)
    return _rf_norm(num, den)


def _rf_div(x, o):
    a, da = _rf_parts(x)
    b, db = _rf_parts(o)
    cb = _const_of(b)
    if cb is not None and db is None:
        if cb == 0:
            raise ZeroDivisionError('float division by zero')
        return _rf_norm(_mul(a, z3.RealVal(1 / cb)), da)
    if CUR.decide(b == 0):
        raise ZeroDivisionError('float division by zero')
    # (a/da) / (b/db) = (a*db) / (da*b), keep the denominator positive
    if da is not None and db is not None and da.get_id() == db.get_id():
        da = db = None
    num = a if db is None else _mul(a, db)
    if CUR.decide(b > 0):
        den = b if da is None else _mul(da, b)
    else:
        num = -num
        den = -b if da is None else _mul(da, -b)
    return _rf_norm(num, den)


def _root_arg(t):
    """(n, argument) if t is an application rootF_n(argument), else None"""
    if z3.is_app(t) and t.num_args() == 1:
        nm = t.decl().name()
        if nm.startswith('rootF_'):
            return int(nm[6:]), t.arg(0)
    return None


def _ipow(s, e):
    if e == 0:
        return 1 if s.is_int else 1.0
    if CUR.mode == 'ABSTRACT' and e >= 2 and s.const() is None:
        a = to_real(s.t)
        p = powF(e)(a)
        CUR.axiom(('pow', e, a.get_id()), lambda: z3.And(
            z3.Implies(a >= 0, p >= 0), (p == 0) == (a == 0),
            p >= 0 if e % 2 == 0 else z3.Implies(a < 0, p < 0)))
        CUR.note_pow(e, a, p)
        return Sym(p)
    r = s
    for _ in range(e - 1):
        r = r * s
    return r


def _root(s, n):
    if n == 1:
        return s if not s.is_int else Sym(to_real(s.t))
    if s.d is not None:
        if CUR.decide(to_real(s.t) < 0):
            raise ValueError('root of a negative number')
        d = CUR.fresh_real('root%d' % n)
        p = d
        for _ in range(n - 1):
            p = p * d
        CUR.assume_def(z3.And(d >= 0, p * s.d == to_real(s.t)))
        return Sym(d)
    a = to_real(s.t)
    c = _const_of(a)
    if c is not None:
        if c < 0:
            raise ValueError('root of a negative number')
        num = round(c.numerator ** (1.0 / n))
        den = round(c.denominator ** (1.0 / n))
        if num ** n == c.numerator and den ** n == c.denominator:
            return Sym(z3.RealVal(fractions.Fraction(num, den)))
    if CUR.decide(a < 0):
        raise ValueError('root of a negative number')   # Python would return a complex / raise
    if CUR.mode == 'ABSTRACT':
        d = rootF(n)(a)
        fresh = ('root', n, a.get_id()) not in CUR._axioms
        CUR.axiom(('root', n, a.get_id()), lambda: z3.And(d >= 0, (d == 0) == (a == 0), powF(n)(d) == a,
                                                          z3.Implies(a == 1, d == 1), z3.Implies(z3.And(a > 0, a < 1), z3.And(d > a, d < 1)),
                                                          z3.Implies(a > 1, z3.And(d < a, d > 1))))
        if fresh:
            CUR.note_root(n, a, d)
            CUR.note_pow(n, d, powF(n)(d))
        return Sym(d)
    d = CUR.fresh_real('root%d' % n)
    p = d
    for _ in range(n - 1):
        p = p * d
    CUR.assume_def(z3.And(d >= 0, p == a))
    return Sym(d)


def _mul(a, b):
    a, b = coerce(a, b)
    ca, cb = _const_of(a), _const_of(b)
    if ca is not None and cb is not None:
        r = ca * cb
        return z3.IntVal(int(r)) if is_int(a) else z3.RealVal(r)
    if ca is not None or cb is not None or CUR.mode != 'ABSTRACT' or is_int(a):
        if ca is not None and ca == 0 or cb is not None and cb == 0:
            return z3.IntVal(0) if is_int(a) else z3.RealVal(0)
        if ca is not None and ca == 1:
            return b
        if cb is not None and cb == 1:
            return a
        return a * b
    if a.get_id() > b.get_id():
        a, b = b, a
    m = MULF(a, b)
    CUR.axiom(('mul', a.get_id(), b.get_id()), lambda: z3.And(
        (m == 0) == z3.Or(a == 0, b == 0),
        z3.Implies(z3.Or(z3.And(a > 0, b > 0), z3.And(a < 0, b < 0)), m > 0),
        z3.Implies(z3.Or(z3.And(a > 0, b < 0), z3.And(a < 0, b > 0)), m < 0),
        _scale_ax(m, a, b), _scale_ax(m, b, a)))
    CUR.note_mul(a, b, m)
    return m


def _scale_ax(m, a, b):
    """m = a*b compared with a, by the size of b (true in real arithmetic)."""
    return z3.And(z3.Implies(b == 1, m == a),
                  z3.Implies(z3.And(b > 1, a > 0), m > a), z3.Implies(z3.And(b > 1, a < 0), m < a),
                  z3.Implies(z3.And(b > 0, b < 1, a > 0), z3.And(m < a, m > 0)),
                  z3.Implies(z3.And(b > 0, b < 1, a < 0), z3.And(m > a, m < 0)))


def _div_ax(q, a, b):
    """q = a/b: sign and size facts (true in real arithmetic; b != 0 on the path)."""
    return z3.And((q == 0) == (a == 0),
                  z3.Implies(z3.Or(z3.And(a > 0, b > 0), z3.And(a < 0, b < 0)), q > 0),
                  z3.Implies(z3.Or(z3.And(a > 0, b < 0), z3.And(a < 0, b > 0)), q < 0),
                  z3.Implies(b == 1, q == a),
                  z3.Implies(z3.And(b > 1, a > 0), q < a), z3.Implies(z3.And(b > 1, a < 0), q > a),
                  z3.Implies(z3.And(b > 0, b < 1, a > 0), q > a), z3.Implies(z3.And(b > 0, b < 1, a < 0), q < a))


def _truediv(a, b):
    a, b = to_real(a), to_real(b)
    cb = _const_of(b)
    if cb is not None:
        if cb == 0:
            raise ZeroDivisionError('float division by zero')
        ca = _const_of(a)
        if ca is not None:
            return Sym(z3.RealVal(ca / cb))
        return Sym(a * z3.RealVal(1 / cb))
    if CUR.decide(b == 0):
        raise ZeroDivisionError('float division by zero')
    if CUR.mode == 'ABSTRACT':
        q = DIVF(a, b)
        CUR.axiom(('div', a.get_id(), b.get_id()), lambda: z3.And(_mul(q, b) == a, _div_ax(q, a, b)))
        CUR.note_div(a, b, q)
        return Sym(q)
    q = CUR.fresh_real('q')
    CUR.assume_def(q * b == a)
    return Sym(q)


def _floordiv(a, b):
    if is_int(a) and is_int(b):
        cb = _const_of(b)
        if cb is None or cb <= 0:
            raise HarnessError('floor division by a non-constant / non-positive int')
        return Sym(a / b)       # z3 integer division = floor for positive divisor
    raise HarnessError('floor division on reals is not modelled')


def _mod(a, b):
    if is_int(a) and is_int(b):
        cb = _const_of(b)
        if cb is None or cb <= 0:
            raise HarnessError('modulo by a non-constant / non-positive int')
        return Sym(a % b)
    raise HarnessError('modulo on reals is not modelled')


# ----------------------------------------------------------------------------------------------
class Counterexample:
    def __init__(self, label, model, decisions, detail=None):
        self.label = label
        self.model = model          # {name: str(rational)}
        self.decisions = decisions
        self.detail = detail or {}

    def as_dict(self):
        return {'label': self.label, 'model': self.model, 'decisions': self.decisions, 'detail': self.detail}


class Explorer:
    """Depth-first exploration of all feasible paths of a harness function."""

    def __init__(self, mode='EXACT', logic=None, timeout_ms=20000, max_paths=200000,
                 max_decisions=20000, wall_s=None, name='', ratfun=False, scratch=False):
        global CUR
        self.mode = mode
        self.ratfun = ratfun and mode == 'EXACT'
        self.scratch = scratch
        self.logic = logic
        self._last = None
        self.name = name
        self.solver = z3.SolverFor(logic) if logic else z3.Solver()
        self.solver.set('timeout', timeout_ms)
        self.timeout_ms = timeout_ms
        self.max_paths = max_paths
        self.max_decisions = max_decisions
        self.wall_s = wall_s
        self.plan = []
        self.trace = []
        self.pos = 0
        self.queries = 0
        self.solver_s = 0.0
        self.paths = 0
        self.dead_paths = 0
        self.decisions = 0
        self.unknown_branches = 0
        self.obligations = 0
        self.discharged = 0
        self.unknown_obligations = []
        self.cex = []
        self.inputs = {}
        self.tags = {}          # vacuity witnesses: tag -> count of feasible paths reaching it
        self.samples = []
        self.inconclusive = None
        self._model = None
        self.dead = False
        CUR = self

    # -- solver plumbing
    def check(self, *extra):
        t = time.time()
        if self.scratch:
            # non-incremental: z3's nlsat-based QF_NRA procedure is far stronger on a fresh solver than under
            # push/pop + assumptions (measured: 0.06 s `unsat` from scratch vs `unknown` after 6 s incrementally)
            sv = z3.SolverFor(self.logic) if self.logic else z3.Solver()
            sv.set('timeout', self.timeout_ms)
            sv.add(self.solver.assertions())
            if extra:
                sv.add(*extra)
            r = sv.check()
            self._last = sv
        else:
            r = self.solver.check(*extra)
            self._last = self.solver
        self.solver_s += time.time() - t
        self.queries += 1
        return r

    def model(self):
        return self._last.model()

    def _model_says(self, cond):
        if self._model is None:
            return None
        try:
            v = self._model.eval(cond, model_completion=True)
        except z3.Z3Exception:
            return None
        if z3.is_true(v):
            return True
        if z3.is_false(v):
            return False
        return None

    def decide(self, cond, payload=None):
        cond = z3.simplify(cond)
        if z3.is_true(cond):
            return True
        if z3.is_false(cond):
            return False
        cid = cond.get_id()
        if cid in self._decided:        # the same condition was decided earlier on this path (self-composition repeats them)
            return self._decided[cid]
        r = self._decide(cond, payload)
        if not self.dead:
            self._decided[cid] = r
            self._keep.append(cond)
        return r

    def _decide(self, cond, payload=None):
        self.decisions += 1
        if self.dead:
            self._dead_steps += 1
            if self._dead_steps > 300:
                raise DeadPathBudget()
            return False
        if self.pos < len(self.plan):
            taken, alt = self.plan[self.pos][:2]
            self._model = None
        else:
            if len(self.trace) >= self.max_decisions:
                self.inconclusive = 'decision budget exceeded on a path'
                self.dead = True
                self._dead_steps = 0
                return False
            guess = self._model_says(cond)
            if guess is None:
                r = self.check(cond)
                if r == z3.sat:
                    self._model = self.model()
                    guess = True
                elif r == z3.unsat:
                    guess = False
                    # normally the other side is feasible (pc is satisfiable); under lazily instantiated axioms (ABSTRACT mode) the
                    # path condition itself may have become infeasible since the last decision: then the path is dead
                    if self.mode == 'ABSTRACT' and self.check(z3.Not(cond)) == z3.unsat:
                        self.dead = True
                        self._dead_steps = 0
                        return False
                    taken, alt = False, False
                    self.pos += 1
                    self.trace.append((taken, alt, payload))
                    self.solver.add(z3.Not(cond))
                    return taken
                else:
                    self.unknown_branches += 1
                    guess = True
                    self._model = None
            # `guess` side is feasible; ask about the other side
            other = z3.Not(cond) if guess else cond
            r = self.check(other)
            if r == z3.unknown:
                self.unknown_branches += 1
            taken, alt = guess, (r != z3.unsat)
        self.pos += 1
        self.trace.append((taken, alt, payload))
        self.solver.add(cond if taken else z3.Not(cond))
        return taken

    def assume(self, cond):
        """Constrain the path (harness preconditions / kernel contracts).  Returns feasibility."""
        if isinstance(cond, SymBool):
            cond = cond.t
        if isinstance(cond, bool):
            cond = z3.BoolVal(cond)
        self.solver.add(cond)
        if self.dead:
            return False
        if self._model_says(cond) is True:
            return True
        self._model = None
        r = self.check()
        if r == z3.sat:
            self._model = self.model()
            return True
        if r == z3.unknown:
            self.unknown_branches += 1
            return True
        self.dead = True
        self._dead_steps = 0
        return False

    def assume_def(self, cond):
        """Definitional constraint on a fresh variable (always satisfiable): no feasibility query."""
        if self.dead:
            return
        self.solver.add(cond)
        if self._model_says(cond) is not True:
            self._model = None

    def axiom(self, key, mk):
        if self.dead:
            return
        if key in self._axioms:
            return
        self._axioms.add(key)
        c = mk()
        self.solver.add(c)
        if self._model_says(c) is not True:
            self._model = None

    # bookkeeping for instantiating monotonicity axioms between abstract terms
    def note_mul(self, a, b, m):
        """monotonicity between products that share a factor (indexed by factor; each product once)"""
        if self.dead:
            return
        key = (a.get_id(), b.get_id())
        if key in self._mul_seen:
            return
        self._mul_seen.add(key)
        for (x, y) in ((a, b), (b, a)):
            for (x2, m2) in self._mul_by_arg.get(y.get_id(), ()):
                if x.get_id() != x2.get_id():
                    self.solver.add(z3.Implies(y > 0, z3.And((x < x2) == (m < m2), (x == x2) == (m == m2))),
                                    z3.Implies(y < 0, z3.And((x < x2) == (m > m2), (x == x2) == (m == m2))))
                    self._model = None
            if a.get_id() == b.get_id():
                break
        self._mul_by_arg.setdefault(b.get_id(), []).append((a, m))
        if a.get_id() != b.get_id():
            self._mul_by_arg.setdefault(a.get_id(), []).append((b, m))

    def note_div(self, a, b, q):
        """cross-multiplication / monotonicity between quotients that share the numerator or the denominator"""
        if self.dead:
            return
        if any(q.get_id() == q2.get_id() for (_, _, q2) in self._divs):
            return
        for (a2, b2, q2) in self._divs:
            if a2.get_id() == a.get_id() and b2.get_id() != b.get_id():
                # a/b <= b2  <=>  a <= b*b2  <=>  a/b2 <= b      (b, b2 > 0)
                self.solver.add(z3.Implies(z3.And(b > 0, b2 > 0), z3.And((q <= b2) == (q2 <= b), (q < b2) == (q2 < b))),
                                z3.Implies(z3.And(b > 0, b2 > 0, a > 0), z3.And((b < b2) == (q2 < q), (b == b2) == (q == q2))),
                                z3.Implies(z3.And(b > 0, b2 > 0, a < 0), (b < b2) == (q < q2)))
                self._model = None
            if b2.get_id() == b.get_id() and a2.get_id() != a.get_id():
                self.solver.add(z3.Implies(b > 0, z3.And((a < a2) == (q < q2), (a == a2) == (q == q2))),
                                z3.Implies(b < 0, z3.And((a < a2) == (q > q2), (a == a2) == (q == q2))))
                self._model = None
        self._divs.append((a, b, q))

    def note_root(self, n, a, d):
        if self.dead:
            return
        for (n2, a2, d2) in self._roots:
            if n2 == n and a2.get_id() != a.get_id():
                self.solver.add(z3.Implies(a < a2, d < d2), z3.Implies(a2 < a, d2 < d), z3.Implies(a == a2, d == d2))
                self._model = None
        self._roots.append((n, a, d))

    def note_pow(self, e, a, p):
        if self.dead:
            return
        for (e2, a2, p2) in self._pows:
            if e2 == e and a2.get_id() != a.get_id():
                self.solver.add(z3.Implies(z3.And(a >= 0, a2 >= 0, a < a2), p < p2),
                                z3.Implies(z3.And(a >= 0, a2 >= 0, a2 < a), p2 < p),
                                z3.Implies(z3.And(a >= 0, a2 >= 0, a == a2), p == p2))
                self._model = None
        self._pows.append((e, a, p))

    def concretize(self, t, lo=None, hi=None):
        """Solver-guided case split of an Int term into concrete values (one path per feasible value)."""
        t = z3.simplify(t)
        c = _const_of(t)
        if c is not None:
            return int(c)
        if self.dead:
            return lo if lo is not None else 0
        if lo is not None:
            self.assume(z3.And(t >= lo, t <= hi))
            if self.dead:
                return lo
        for _ in range(100000):
            if self.pos < len(self.plan):
                v = self.plan[self.pos][2]      # replay: the candidate recorded on the first visit
            else:
                v = self._value_of(t)
            if v is None:
                self.dead = True
                self._dead_steps = 0
                return lo if lo is not None else 0
            if self.decide(t == v, payload=v):
                return v
        raise HarnessError('concretize: too many values')

    def _value_of(self, t):
        r = self.check()
        if r != z3.sat:
            return None
        m = self.model()
        self._model = m
        return m.eval(t, model_completion=True).as_long()

    # -- symbolic inputs
    def real(self, name):
        v = z3.Real(name)
        self.inputs[name] = v
        return Sym(v)

    def int(self, name):
        v = z3.Int(name)
        self.inputs[name] = v
        return Sym(v)

    def bool(self, name):
        v = z3.Bool(name)
        self.inputs[name] = v
        return SymBool(v)

    def fresh_real(self, name='t'):
        self._fresh += 1
        return z3.Real('%s!%d' % (name, self._fresh))

    def fresh_int(self, name='k'):
        self._fresh += 1
        return z3.Int('%s!%d' % (name, self._fresh))

    def format_sym(self, s, spec):
        return '<sym:%s>' % z3.simplify(s.t).sexpr().replace('\n', ' ')[:200]

    # -- obligations
    def tag(self, name):
        """Record that a feasible path reached a declared case class (vacuity witness)."""
        if not self.dead:
            self.tags[name] = self.tags.get(name, 0) + 1

    def prove(self, cond, label, detail=None):
        """Obligation: on this path, `cond` holds for every value of the symbolic inputs."""
        if isinstance(cond, SymBool):
            cond = cond.t
        if not z3.is_expr(cond):
            cond = z3.BoolVal(bool(cond))
        if self.dead:
            return None
        self.obligations += 1
        cond_s = z3.simplify(cond)
        if z3.is_true(cond_s):
            self.discharged += 1
            return True
        r = self.check(z3.Not(cond))
        if r == z3.unsat:
            self.discharged += 1
            return True
        if r == z3.sat:
            m = self.model()
            model = {}
            for n, v in self.inputs.items():
                try:
                    model[n] = str(m.eval(v, model_completion=True))
                except z3.Z3Exception:
                    model[n] = '?'
            d = dict(detail or {})
            d['path'] = self.paths
            self.cex.append(Counterexample(label, model, [e[0] for e in self.trace], d))
            return False
        self.unknown_obligations.append(label)
        return None

    def prove_batch(self, items):
        """items: [(cond, label, detail)].  One query for the conjunction; individual queries only if it is not `unsat`."""
        if self.dead:
            return
        conds = []
        for cond, label, detail in items:
            if isinstance(cond, SymBool):
                cond = cond.t
            if not z3.is_expr(cond):
                cond = z3.BoolVal(bool(cond))
            conds.append((z3.simplify(cond), cond, label, detail))
        open_ = [c for c in conds if not z3.is_true(c[0])]
        self.obligations += len(conds) - len(open_)
        self.discharged += len(conds) - len(open_)
        if not open_:
            return
        if len(open_) > 1:
            r = self.check(z3.Not(z3.And(*[c[1] for c in open_])))
            if r == z3.unsat:
                self.obligations += len(open_)
                self.discharged += len(open_)
                return
        bad = 0
        for i, (_, cond, label, detail) in enumerate(open_):
            if bad >= 4:
                # this path already produced several counterexamples / unknowns: the rest is not asked (each query may run into its
                # time limit); they are recorded as undecided so that the run cannot pass on their account
                self.obligations += len(open_) - i
                self.unknown_obligations.append('%d further obligations of a failing path not asked (first: %s)' % (len(open_) - i, label))
                break
            r = self.prove(cond, label, detail)
            if r is not True:
                bad += 1

    def find(self, cond):
        """A model of  pc /\\ cond  restricted to the declared inputs, or None (unsat / unknown)."""
        if isinstance(cond, SymBool):
            cond = cond.t
        if self.dead:
            return None
        r = self.check(cond)
        if r != z3.sat:
            return None
        m = self.model()
        return {n: str(m.eval(v, model_completion=True)) for n, v in self.inputs.items()}

    def model_values(self):
        """A model of the current path condition restricted to the declared inputs (for samples)."""
        r = self.check()
        if r != z3.sat:
            return None
        m = self.model()
        self._model = m
        out = {}
        for n, v in self.inputs.items():
            out[n] = str(m.eval(v, model_completion=True))
        return out

    # -- exploration
    def explore(self, fn, on_path=None, sample_every=0):
        global CUR
        CUR = self
        t0 = time.time()
        self.plan = []
        while True:
            self.solver.push()
            self.pos = 0
            self.trace = []
            self._fresh = 0
            self._axioms = set()
            self._muls = []
            self._mul_seen = set()
            self._mul_by_arg = {}
            self._roots = []
            self._pows = []
            self._divs = []
            self._decided = {}
            self._keep = []
            self._model = None
            self.dead = False
            self._dead_steps = 0
            self.inputs = {}
            try:
                res = fn(self)
            except DeadPathBudget:
                res = None
            except (HarnessError, z3.Z3Exception, MemoryError, RecursionError, AssertionError):
                raise
            except BaseException as e:      # the code under test raised on a feasible path: a candidate, not a harness error
                if isinstance(e, KeyboardInterrupt) and not getattr(self, 'injects_interrupts', False):
                    raise
                res = None
                if not self.dead:
                    self.prove(False, 'EXC: the code under test raised %s' % type(e).__name__,
                               {'exception': '%s: %s' % (type(e).__name__, str(e)[:200])})
            if self.dead:
                self.dead_paths += 1
            else:
                self.paths += 1
                if on_path is not None:
                    on_path(self, res)
                if sample_every and (self.paths - 1) % sample_every == 0 and len(self.samples) < 6:
                    mv = self.model_values()
                    if mv is not None:
                        self.samples.append({'path': self.paths, 'decisions': len(self.trace), 'inputs': mv,
                                             'result': _short(res)})
            self.solver.pop()
            tr = self.trace
            while tr and not tr[-1][1]:
                tr.pop()
            if not tr:
                break
            taken, _, pl = tr.pop()
            tr.append((not taken, False, pl))
            self.plan = tr
            if self.paths + self.dead_paths >= self.max_paths:
                self.inconclusive = 'path budget (%d) exhausted' % self.max_paths
                break
            if self.wall_s is not None and time.time() - t0 > self.wall_s:
                self.inconclusive = 'wall-clock budget (%ds) exhausted' % self.wall_s
                break
        self.wall = time.time() - t0
        return self

    def summary(self):
        return {
            'name': self.name, 'mode': self.mode, 'paths': self.paths, 'dead_paths': self.dead_paths,
            'decisions': self.decisions, 'queries': self.queries, 'solver_s': round(self.solver_s, 3),
            'wall_s': round(getattr(self, 'wall', 0.0), 3),
            'obligations': self.obligations, 'discharged': self.discharged,
            'unknown_obligations': self.unknown_obligations[:10], 'n_unknown_obligations': len(self.unknown_obligations),
            'unknown_branches': self.unknown_branches,
            'cex': [c.as_dict() for c in self.cex[:5]], 'n_cex': len(self.cex),
            'tags': dict(self.tags), 'samples': self.samples, 'inconclusive': self.inconclusive,
        }


class no_raise:
    """Context manager: an exception escaping the code under test on a feasible path is a counterexample
    (obligation `label`), not a harness error.  HarnessError / engine exceptions pass through."""

    def __init__(self, ex, label, detail=None):
        self.ex, self.label, self.detail = ex, label, detail
        self.raised = None

    def __enter__(self):
        return self

    def __exit__(self, et, ev, tb):
        if et is None:
            return False
        if issubclass(et, (HarnessError, DeadPathBudget, z3.Z3Exception, MemoryError, RecursionError)):
            return False
        if not issubclass(et, Exception):
            return False
        self.raised = ev
        d = dict(self.detail or {})
        d['exception'] = '%s: %s' % (et.__name__, ev)
        self.ex.prove(False, self.label + ': the code raised an exception', d)
        return True


def _short(res):
    s = repr(res)
    return s if len(s) <= 300 else s[:300] + '...'


def frac(s):
    """Parse z3's rendering of a rational / integer model value."""
    s = s.strip()
    if s.endswith('?'):
        s = s[:-1]
    if '/' in s:
        a, b = s.split('/')
        return fractions.Fraction(int(a), int(b))
    return fractions.Fraction(s)
