"""Stubs installed into the namespaces of the repository's modules (DESIGN.md section 3.2).

NPShim   stands for `numpy` inside a module: arrays become dtype-tagged Python lists so that elements can be
         Sym proxies; everything not overridden is delegated to the real numpy.
MathShim stands for `math`: isclose is encoded exactly; sqrt -> algebraic definition; sin/cos(k*pi*x) -> exact
         rational functions of t = tan(half base angle) (Chebyshev recurrences).
sym_int  stands for the builtin int(): truncation toward zero.
"""
import fractions
import math as _math

import numpy as _np
import z3

from . import core
from .core import Sym, SymBool, HarnessError, lift, to_real, coerce, is_int, _const_of

INT_DTYPES = ('int', 'int32', 'int64', 'intc', 'int_', 'long')


class DType:
    """Stands for np.double / np.int32 ...: usable as a dtype tag and as a scalar constructor."""

    def __init__(self, kind, name):
        self._kind = kind
        self.__name__ = name

    def __call__(self, v=0):
        if self._kind == 'i':
            return sym_int(v)
        if isinstance(v, Sym):
            return Sym(to_real(v.t)) if v.is_int else v
        return float(v)

    def __repr__(self):
        return 'shim.' + self.__name__


def _dtype_kind(dtype):
    if dtype is None:
        return 'f'
    if isinstance(dtype, DType):
        return dtype._kind
    if dtype is int:
        return 'i'
    if dtype is float:
        return 'f'
    try:
        k = _np.dtype(dtype).kind
    except TypeError:
        return 'O'
    if k in 'iu':
        return 'i'
    if k == 'f':
        return 'f'
    if k == 'b':
        return 'i'
    return 'O'


def sym_int(x=0, *a):
    """builtin int(): exact for concrete values; truncation toward zero for symbolic reals."""
    if not isinstance(x, Sym):
        return int(x, *a)
    if x.is_int:
        return x
    c = x.const()
    if c is not None:
        return int(c)
    ex = core.CUR
    k = ex.fresh_int('trunc')
    kk = z3.ToReal(k)
    if ex.decide(x.t >= 0):
        ex.assume_def(z3.And(kk <= x.t, x.t < kk + 1))
    else:
        ex.assume_def(z3.And(kk >= x.t, x.t > kk - 1))
    return Sym(k)


def _store(kind, v):
    """numpy's conversion on element store."""
    if isinstance(v, SArr):
        if len(v) == 1:
            v = v[0]
        else:
            raise HarnessError('sequence stored into an array element')
    if kind == 'i':
        if isinstance(v, Sym):
            return v if v.is_int else sym_int(v)
        if isinstance(v, (float, _np.floating)):
            return int(v)
        if isinstance(v, (bool, _np.bool_)):
            return int(v)
        if isinstance(v, (int, _np.integer)):
            return int(v)
        raise HarnessError('store of %r into int array' % (v,))
    if kind == 'f':
        if isinstance(v, Sym):
            return Sym(to_real(v.t)) if v.is_int else v
        if isinstance(v, (int, float, _np.integer, _np.floating, bool, _np.bool_)):
            return float(v)
        raise HarnessError('store of %r into float array' % (v,))
    return v


class SArr(list):
    """1-D array stand-in (rows of a 2-D array are SArr themselves)."""
    __slots__ = ('kind',)

    def __init__(self, items=(), kind='f'):
        self.kind = kind
        super().__init__(_store(kind, v) if not isinstance(v, (list, SArr)) else v for v in items)

    def __setitem__(self, i, v):
        if isinstance(i, slice):
            idx = range(*i.indices(len(self)))
            vals = list(v) if isinstance(v, (list, tuple, SArr, _np.ndarray)) else [v] * len(idx)
            if len(vals) != len(idx):
                raise HarnessError('slice store of different length')
            for j, x in zip(idx, vals):
                self[j] = x
            return
        if isinstance(i, tuple):
            raise HarnessError('tuple index')
        if self and isinstance(list.__getitem__(self, 0), SArr):
            row = list.__getitem__(self, i)
            if len(v) != len(row):
                raise HarnessError('row store of different length')
            for j, x in enumerate(v):
                row[j] = x
            return
        list.__setitem__(self, i, _store(self.kind, v))

    def __getitem__(self, i):
        if isinstance(i, tuple):
            r = self
            for j in i:
                r = r[j]
            return r
        if isinstance(i, slice):
            return SArr(list.__getitem__(self, i), self.kind)
        return list.__getitem__(self, i)

    def fill(self, v):
        for i in range(len(self)):
            self[i] = v

    @property
    def size(self):
        if self and isinstance(list.__getitem__(self, 0), SArr):
            return sum(r.size for r in self)
        return len(self)

    @property
    def shape(self):
        if self and isinstance(list.__getitem__(self, 0), SArr):
            return (len(self),) + list.__getitem__(self, 0).shape
        return (len(self),)

    @property
    def dtype(self):
        return _np.dtype('int64' if self.kind == 'i' else 'float64' if self.kind == 'f' else 'O')

    def copy(self):
        return SArr([r.copy() if isinstance(r, SArr) else r for r in self], self.kind)

    def __deepcopy__(self, memo):
        return self.copy()

    def __copy__(self):
        return self.copy()

    def tolist(self):
        return [r.tolist() if isinstance(r, SArr) else r for r in self]

    def _ew(self, o, f):
        if isinstance(o, (list, SArr, _np.ndarray)):
            if len(o) != len(self):
                raise HarnessError('broadcast of different lengths')
            return SArr([f(a, b) for a, b in zip(self, o)], 'f' if 'f' in (self.kind, getattr(o, 'kind', 'f')) else self.kind)
        return SArr([f(a, o) for a in self], self.kind if isinstance(o, int) else 'f')

    def __add__(self, o):
        return self._ew(o, lambda a, b: a + b)

    def __radd__(self, o):
        return self._ew(o, lambda a, b: b + a)

    def __rsub__(self, o):
        return self._ew(o, lambda a, b: b - a)

    def __rmul__(self, o):
        return self._ew(o, lambda a, b: b * a)

    def __array_ufunc__(self, ufunc, method, *inputs, **kw):
        """element-wise numpy ufuncs on arrays that hold symbolic numbers (comparisons fork the path)"""
        table = {'add': lambda a, b: a + b, 'subtract': lambda a, b: a - b, 'multiply': lambda a, b: a * b,
                 'true_divide': lambda a, b: a / b, 'divide': lambda a, b: a / b,
                 'maximum': lambda a, b: a if a >= b else b, 'minimum': lambda a, b: a if a <= b else b,
                 'negative': lambda a: -a, 'absolute': lambda a: abs(a)}
        f = table.get(ufunc.__name__)
        if method != '__call__' or f is None or kw.get('out') is not None:
            raise HarnessError('numpy ufunc %s.%s on a symbolic array is not modelled' % (ufunc.__name__, method))
        n = len(self)
        cols = []
        for a in inputs:
            if isinstance(a, (list, SArr, _np.ndarray)):
                if len(a) != n:
                    raise HarnessError('broadcast of different lengths')
                cols.append(list(a))
            else:
                cols.append([a] * n)
        return SArr([f(*[c[i] for c in cols]) for i in range(n)], 'f')

    def __sub__(self, o):
        return self._ew(o, lambda a, b: a - b)

    def __mul__(self, o):
        return self._ew(o, lambda a, b: a * b)

    def __truediv__(self, o):
        return self._ew(o, lambda a, b: a / b)

    def __iadd__(self, o):
        r = self + o
        for i, v in enumerate(r):
            self[i] = v
        return self

    def __repr__(self):
        return 'SArr(%s,%s)' % (list.__repr__(self), self.kind)

    __str__ = __repr__
    __hash__ = None

    def __eq__(self, o):
        raise HarnessError('array == comparison is not modelled')


def _kind_of_values(vals):
    k = 'i'
    for v in vals:
        if isinstance(v, (list, tuple, SArr, _np.ndarray)):
            k2 = _kind_of_values(v)
            if k2 != 'i':
                k = k2
        elif isinstance(v, Sym):
            if not v.is_int:
                k = 'f'
        elif isinstance(v, (bool, int, _np.integer)):
            pass
        elif isinstance(v, (float, _np.floating)):
            k = 'f'
        else:
            return 'O'
    return k


def _from(seq, kind=None):
    if isinstance(seq, _np.ndarray):
        if kind is None:
            kind = _dtype_kind(seq.dtype)
        seq = seq.tolist()
    elif isinstance(seq, SArr) and kind is None:
        kind = seq.kind
    if isinstance(seq, (Sym, int, float, _np.number)):
        raise HarnessError('0-d array')
    seq = list(seq)
    if kind is None:
        kind = _kind_of_values(seq)
    if seq and isinstance(seq[0], (list, tuple, SArr, _np.ndarray)):
        return SArr([_from(r, kind) for r in seq], kind)
    return SArr(seq, kind)


def _shape_alloc(shape, kind, v):
    if isinstance(shape, (int, _np.integer)):
        shape = (int(shape),)
    elif isinstance(shape, Sym):
        shape = (shape.__index__(),)
    shape = tuple(int(s) if not isinstance(s, Sym) else s.__index__() for s in shape)
    if len(shape) == 1:
        return SArr([v] * shape[0], kind)
    return SArr([_shape_alloc(shape[1:], kind, v) for _ in range(shape[0])], kind)


class NPShim:
    """Stands for the `numpy` module inside one repository module."""

    def __init__(self, math_shim=None):
        self._m = math_shim or MathShim()

    def __getattr__(self, name):
        return getattr(_np, name)

    def zeros(self, shape, dtype=None):
        k = _dtype_kind(dtype)
        return _shape_alloc(shape, k, 0 if k == 'i' else 0.0)

    def ones(self, shape, dtype=None):
        k = _dtype_kind(dtype)
        return _shape_alloc(shape, k, 1 if k == 'i' else 1.0)

    def ndarray(self, shape=None, dtype=None, **kw):
        k = _dtype_kind(dtype)
        if k == 'O':
            return _np.ndarray(shape=shape, dtype=dtype, **kw)
        # uninitialised memory: modelled as zeros (the code under test always writes before reading)
        return _shape_alloc(shape, k, 0 if k == 'i' else 0.0)

    def copy(self, a):
        return _from(a)

    def array(self, a, dtype=None):
        return _from(a, None if dtype is None else _dtype_kind(dtype))

    def asarray(self, a, dtype=None):
        # numpy semantics: no copy when the argument already is an array of the requested dtype
        if isinstance(a, SArr) and (dtype is None or _dtype_kind(dtype) == a.kind):
            return a
        return self.array(a, dtype)

    double = DType('f', 'double')
    float64 = DType('f', 'float64')
    float32 = DType('f', 'float32')
    float_ = DType('f', 'float_')
    int32 = DType('i', 'int32')
    int64 = DType('i', 'int64')
    int_ = DType('i', 'int_')

    def sqrt(self, v):
        return self._m.sqrt(v)

    def sin(self, v):
        return self._m.sin(v)

    def cos(self, v):
        return self._m.cos(v)

    def abs(self, v):
        return abs(v)

    def _flat(self, a):
        out = []
        for v in a:
            if isinstance(v, (list, SArr, _np.ndarray)):
                out += self._flat(v)
            else:
                out.append(v)
        return out

    def max(self, a, *k, **kw):
        if not isinstance(a, SArr):
            return _np.max(a, *k, **kw)
        vals = self._flat(a)
        r = vals[0]
        for v in vals[1:]:
            if v > r:
                r = v
        return r

    def min(self, a, *k, **kw):
        if not isinstance(a, SArr):
            return _np.min(a, *k, **kw)
        vals = self._flat(a)
        r = vals[0]
        for v in vals[1:]:
            if v < r:
                r = v
        return r

    amax = max
    amin = min

    def ptp(self, a, *k, **kw):
        if not isinstance(a, SArr):
            return _np.ptp(a, *k, **kw)
        return self.max(a) - self.min(a)

    def all(self, a, *k, **kw):
        if not isinstance(a, SArr):
            return _np.all(a, *k, **kw)
        for v in self._flat(a):
            if not v:
                return False
        return True

    def any(self, a, *k, **kw):
        if not isinstance(a, SArr):
            return _np.any(a, *k, **kw)
        for v in self._flat(a):
            if v:
                return True
        return False

    def isclose(self, a, b, rtol=1e-05, atol=1e-08):
        raise HarnessError('np.isclose not modelled')


# ----------------------------------------------------------------------------------------------
class PiTag:
    """`math.pi`: may only appear as a factor of a trigonometric argument."""

    def __init__(self, coef=1):
        self.coef = coef        # Fraction / Sym multiple of pi

    def __mul__(self, o):
        if isinstance(o, PiTag):
            raise HarnessError('pi*pi')
        return PiTag(self.coef * o)

    __rmul__ = __mul__

    def __truediv__(self, o):
        return PiTag(self.coef / o)

    def __float__(self):
        c = self.coef
        if isinstance(c, Sym) and c.const() is not None:
            c = float(c.const())
        if isinstance(c, Sym):
            raise HarnessError('float(pi*sym)')
        return float(_math.pi * c)

    def __neg__(self):
        return PiTag(-self.coef)

    def __add__(self, o):
        raise HarnessError('pi used outside a trigonometric factor')

    __radd__ = __sub__ = __rsub__ = __add__


class Angle:
    """Registry of base angles: for a symbolic x, theta = pi*x gets t = tan(theta/2) as a fresh real.

    sin(k*theta) and cos(k*theta) are then *exact* rational functions of t.  theta/2 = +-pi/2 (t infinite,
    i.e. x odd integer) has to be handled by the harness as a separate concrete point.
    """

    def __init__(self):
        self.by_id = {}

    def tvar(self, x):
        key = x.t.get_id()
        if key not in self.by_id:
            ex = core.CUR
            t = ex.fresh_real('tanhalf')
            self.by_id[key] = (x, Sym(t))
        return self.by_id[key][1]


class MathShim:
    def __init__(self):
        self.pi = PiTag(1)
        self.inf = _math.inf
        self.angles = Angle()
        self.trig_mode = 'tanhalf'
        self.trig_base = 1
        self.trig_K = None
        self.trig_log = []

    def __getattr__(self, name):
        return getattr(_math, name)

    # -- exact isclose (the solver decides where it differs from ==)
    def isclose(self, a, b, rel_tol=1e-09, abs_tol=0.0):
        if not isinstance(a, Sym) and not isinstance(b, Sym):
            return _math.isclose(a, b, rel_tol=rel_tol, abs_tol=abs_tol)
        A, B = coerce(lift(a), lift(b))
        A, B = to_real(A), to_real(B)
        absA = z3.If(A >= 0, A, -A)
        absB = z3.If(B >= 0, B, -B)
        d = z3.If(A - B >= 0, A - B, B - A)
        mx = z3.If(absA >= absB, absA, absB)
        rt = lift(float(rel_tol))
        at = lift(float(abs_tol))
        tol = z3.If(rt * mx >= at, rt * mx, at)
        return SymBool(z3.Or(A == B, d <= tol))

    def sqrt(self, v):
        if not isinstance(v, Sym):
            return _math.sqrt(v)
        if getattr(self, 'opaque', False):
            r = self._opaque('sqrt', v)
            core.CUR.assume_def(r.t >= 0)
            return r
        return core._root(v, 2)

    def fabs(self, v):
        return abs(v)

    def floor(self, v):
        if not isinstance(v, Sym):
            return _math.floor(v)
        raise HarnessError('floor of a symbolic value')

    def exp(self, v):
        if not isinstance(v, Sym):
            return _math.exp(v)
        if getattr(self, 'opaque', False):
            return self._opaque('exp', v, pos=True)
        raise HarnessError('exp of a symbolic value is not modelled')

    def _opaque(self, name, v, pos=False, unit=False):
        """an unmodelled function as an opaque function of its argument TERM (same term => same value)"""
        cache = self.__dict__.setdefault('_op', {})
        vt = z3.simplify(v.term())
        key = (name, vt.get_id())
        if key not in cache:
            ex = core.CUR
            r = ex.fresh_real(name)
            if pos:
                ex.assume_def(r > 0)
            if unit:
                ex.assume_def(z3.And(r >= -1, r <= 1))
            cache[key] = (Sym(r), v, vt)      # keeps the argument term alive (ids are only unique among live terms)
        return cache[key][0]

    def pow(self, a, b):
        return a ** b

    # -- trigonometry of k*pi*x
    def _split(self, arg):
        """arg = PiTag(coef) with coef = k * x (k rational constant, x a Sym) -> (k, x)."""
        if not isinstance(arg, PiTag):
            if isinstance(arg, Sym):
                if getattr(self, 'opaque', False):
                    return ('opaque', arg)
                raise HarnessError('trigonometric function of a symbolic value that is not a multiple of pi')
            return None
        c = arg.coef
        if not isinstance(c, Sym):
            return None
        if c.const() is not None and self.trig_mode != 'interval':
            return None
        return c

    def sin(self, arg):
        c = self._split(arg)
        if c is None:
            return _math.sin(float(arg))
        if isinstance(c, tuple):
            return self._opaque('sin', c[1], unit=True)
        return self._trig(c, 'sin')

    def cos(self, arg):
        c = self._split(arg)
        if c is None:
            return _math.cos(float(arg))
        if isinstance(c, tuple):
            return self._opaque('cos', c[1], unit=True)
        return self._trig(c, 'cos')

    def _trig(self, c, which):
        """sin / cos of pi*c where c is a Sym of the form k*x (k a concrete integer, x a base Sym)."""
        if self.trig_mode == 'interval':
            return self._trig_interval(c, which)
        cc = c.const()
        if cc is not None:
            v = _math.pi * float(cc)
            return _math.sin(v) if which == 'sin' else _math.cos(v)
        k, x = _linear_split(c)
        if k is None:
            raise HarnessError('angle %s is not an integer multiple of a base variable' % c)
        if k == 0:
            return 0.0 if which == 'sin' else 1.0
        if k % self.trig_base:
            raise HarnessError('angle multiple %d is not a multiple of the base %d' % (k, self.trig_base))
        k //= self.trig_base
        t = self.angles.tvar(x)
        ak = abs(k)
        if self.trig_K is not None:
            # exact rational functions with ONE shared denominator D^K, D = 1 + t^2 (t = tan(base*pi*x/2))
            if ak > self.trig_K:
                raise HarnessError('angle multiple %d exceeds trig_K=%d' % (ak, self.trig_K))
            C, S = self._poly_multiple(x, t, ak)
            D = 1 + t.t * t.t
            pad = self._dpow(x, D, self.trig_K - ak)
            num = (C if which == 'cos' else (S if k > 0 else -S)) * pad
            return Sym(num, self._dpow(x, D, self.trig_K))
        # base: theta = pi*x ; t = tan(theta/2)
        den = 1 + t * t
        c1 = (1 - t * t) / den
        s1 = (2 * t) / den
        ck, sk = self._multiple(x, ak, c1, s1)
        if which == 'cos':
            return ck
        return sk if k > 0 else -sk

    def _dpow(self, x, D, n):
        cache = self.__dict__.setdefault('_dp', {})
        key = (x.t.get_id(), n)
        if key not in cache:
            p = z3.RealVal(1)
            for _ in range(n):
                p = p * D
            cache[key] = z3.simplify(p) if n == 0 else p
        return cache[key]

    def _poly_multiple(self, x, t, k):
        """numerators of cos(k*theta), sin(k*theta) over D^k:  C_1 = 1 - t^2, S_1 = 2t, Chebyshev-style recurrence"""
        cache = self.__dict__.setdefault('_pm', {})
        key = (x.t.get_id(), k)
        if key in cache:
            return cache[key]
        tt = t.t
        if k == 0:
            r = (z3.RealVal(1), z3.RealVal(0))
        elif k == 1:
            r = (1 - tt * tt, 2 * tt)
        else:
            cp, sp = self._poly_multiple(x, t, k - 1)
            c1, s1 = self._poly_multiple(x, t, 1)
            r = (cp * c1 - sp * s1, sp * c1 + cp * s1)
        cache[key] = r
        return r

    def _trig_interval(self, c, which):
        """sound relaxation: sin / cos of anything is SOME number in [-1, 1] (one fresh real per distinct argument)"""
        cache = self.__dict__.setdefault('_ti', {})
        key = (which, c.t.get_id() if isinstance(c, Sym) else repr(c))
        if key not in cache:
            ex = core.CUR
            v = ex.fresh_real(which)
            ex.assume_def(z3.And(v >= -1, v <= 1))
            cache[key] = (Sym(v), c)          # the argument term is kept alive: z3 ids are only unique among live terms
            self.trig_log.append(key)
        return cache[key][0]

    def _multiple(self, x, k, c1, s1):
        key = (x.t.get_id(), k)
        cache = self.__dict__.setdefault('_mc', {})
        if key in cache:
            return cache[key]
        if k == 1:
            r = (c1, s1)
        else:
            cp, sp = self._multiple(x, k - 1, c1, s1)
            r = (cp * c1 - sp * s1, sp * c1 + cp * s1)
        cache[key] = r
        return r


def _linear_split(c):
    """c (Sym) -> (k, x) with c = k*x, k a non-zero concrete integer, x a Sym 'base' term; else (None, None)."""
    t = z3.simplify(c.t)
    if z3.is_app(t) and t.decl().kind() == z3.Z3_OP_MUL and t.num_args() == 2:
        a, b = t.arg(0), t.arg(1)
        ca = _const_of(a)
        if ca is not None and ca.denominator == 1:
            return int(ca), Sym(b)
    if z3.is_const(t) and _const_of(t) is None:
        return 1, Sym(t)
    # k*x may have been built as ToReal(k)*x etc.
    return None, None


# ----------------------------------------------------------------------------------------------
def install(module, np=None, math=None, int_=False, **extra):
    """Replace names in a repository module's namespace; returns an undo closure."""
    saved = {}
    missing = object()

    def put(name, value):
        saved[name] = module.__dict__.get(name, missing)
        module.__dict__[name] = value
    if np is not None:
        put('np', np)
    if math is not None:
        put('math', math)
    if int_:
        put('int', sym_int)
    for k, v in extra.items():
        put(k, v)

    def undo():
        for k, v in saved.items():
            if v is missing:
                module.__dict__.pop(k, None)
            else:
                module.__dict__[k] = v
    return undo
