"""C11 -- determinism and independence from how the iterations are batched (DESIGN.md section 5, C11).

2-safety by self-composition: several FRESH real Solvers on the SAME objective (shared functional-consistency log, so the
solver cannot give different values at the same point), one running Solve() alone (the reference), the others every
composition of K iterations into DoGlobalIteration batches -- optionally polling GetResults() in between -- followed by
Solve() twice.  eps is symbolic in (0,2) so the accuracy stop may fire before, at or after the batch total; itersLimit is
concrete.  Clauses: every variant makes the same trials in the same order as the reference, ends where the reference ends
(or at its batch total if that is later), Solve on a finished solver evaluates nothing, results coincide.
Objective values: a concrete reachable prefix followed by arbitrary reals (EXACT arithmetic, public interface only).
"""
import itertools
import os
import sys

sys.path.insert(0, os.path.dirname(os.path.dirname(os.path.abspath(__file__))))
from harness import agp, agpnative as an  # noqa: E402
from symex import report  # noqa: E402

PID = 'C11'
WANT = ('C11',)


def compositions(K):
    if K == 0:
        return [[]]
    out = []
    for first in range(1, K + 1):
        for rest in compositions(K - first):
            out.append([first] + rest)
    return out


def job(cfg, label):
    return agp.compose_job(cfg, WANT, an.batching_clauses, label=label)


def plans(run):
    quick = run.quick
    out = []
    base = {'overrides': ['before', 'iter', 'stop']}
    seeds = [(run.seed * 3 + i) % 50 for i in range(3 if quick else 5)] + [3]
    for sd in seeds:
        for L in ((3, 5) if quick else (2, 3, 4, 5)):
            for Ks in ((L - 1, L + 1) if quick else (1, L - 1, L, L + 1)):
                if Ks < 1 or (L == 5 and Ks > L):
                    continue
                kpre = max(0, max(Ks, L) - 2)        # the last two values of the longest variant are arbitrary, the rest a reachable prefix
                variants = [{'script': [('solve',)]}, {'script': [('solve',), ('solve',)]}]
                for comp in compositions(Ks):
                    if len(comp) > 3:
                        continue
                    variants.append({'script': [('iter', n) for n in comp] + [('solve',), ('solve',)]})
                # polling the result between batches must not matter either
                variants.append({'script': [('iter', 1), ('results',)] + ([('iter', Ks - 1), ('results',)] if Ks > 1 else []) + [('solve',)]})
                cfg = dict(base, N=1, r=2.5 if sd % 2 == 0 else 1.3, seed=sd, kpre=kpre, nsym=L + 2 - kpre, iters_limit=L, eps='sym',
                           variants=variants, tags=['batches-%s-limit' % ('below' if Ks < L else 'at' if Ks == L else 'beyond')])
                out.append((cfg, 'f#%d: %d concrete values, itersLimit=%d, eps symbolic; all compositions of %d iterations (+ polling) vs Solve alone'
                            % (sd, kpre, L, Ks)))
    # iterations carried past the moment the accuracy criterion first holds (concrete eps so that the moment lies in the
    # reachable prefix); afterwards Solve must add nothing.  Fixed prefix functions (cost differs a lot between them).
    for sd in ((1, 2) if quick else (1, 2, 5)):
        Ks, L = 6, 7
        variants = [{'script': [('solve',)]}, {'script': [('iter', Ks), ('solve',), ('solve',)]},
                    {'script': [('iter', 2), ('iter', Ks - 2), ('results',), ('solve',)]}]
        cfg = dict(base, N=1, r=2.5, seed=sd, kpre=4, nsym=L - 2, iters_limit=L, eps=0.2, variants=variants, tags=['past-the-accuracy-stop'])
        out.append((cfg, 'f#%d: 4 concrete values, eps=0.2, itersLimit=7: 6 iterations in batches (past the accuracy stop), then Solve' % sd))
    return out


def main():
    run = report.Runner(PID, design_ref='5/C11')
    agp.describe(run, what=('method', 'process', 'solver'))
    agp.describe_stubs(run)
    jobs = [(job, p) for p in plans(run)]
    run.bound(runs='itersLimit 2..5, all compositions of the batch total into <= 3 batches, batch totals below / at / beyond the limit, '
                   'eps symbolic in (0,2); objective = reachable concrete prefix + arbitrary values in [-1000,1000]; N = 1')
    run.not_covered('runs longer than the bound; N >= 2 (the batching logic does not depend on the dimension); floats')
    run.parallel(jobs)
    agp.confirm(run, WANT)
    run.finish('the trial sequence is the same for every batching and for repeated runs; Solve ends at the first moment the stop criterion '
               'holds; Solve on a finished solver performs no further trial',
               vacuity=['compose', 'symbolic-values', 'batches-below-limit', 'batches-beyond-limit', 'past-the-accuracy-stop'])


if __name__ == '__main__':
    main()
