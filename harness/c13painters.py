"""Native differential part of C13 for the four PAINTING listeners (matplotlib / sklearn / scipy code over numpy arrays that the symbolic proxies
cannot enter).  This part is GROUND: concrete objectives, no quantifier over objective values -- stated as such in the evidence.  For each
listener configuration the same problem is solved without listeners and with the painting listener attached (Agg backend, pictures
written to a scratch directory that is removed); trial log and every Solution field must coincide and f(returned point) = returned value.
Run with the repository's own interpreter:  exit 1 = a difference (printed), exit 0 = none."""
import os
import shutil
import sys
import tempfile

os.environ.setdefault('MPLBACKEND', 'Agg')
sys.path.insert(0, os.environ.get('IOPT_REPO', '/repo'))
sys.path.insert(1, os.path.dirname(os.path.dirname(os.path.abspath(__file__))))
import warnings  # noqa: E402
warnings.filterwarnings('ignore')
from harness import agpnative as an  # noqa: E402


def configs(mods):
    L = mods.listener
    out = []
    for mode in ('objective function', 'only points', 'interpolation'):
        out.append((1, 'StaticPaintListener(%s)' % mode, lambda d, mode=mode: L.StaticPaintListener('p.png', d, mode=mode)))
    out.append((2, 'StaticPaintListener(indx=1) on a 2-D problem', lambda d: L.StaticPaintListener('p.png', d, indx=1)))
    for N in (2, 3):
        out.append((N, 'StaticNDPaintListener(lines layers, objective function)', lambda d: L.StaticNDPaintListener('p.png', d, varsIndxs=[0, 1])))
        out.append((N, 'StaticNDPaintListener(lines layers, interpolation)', lambda d: L.StaticNDPaintListener('p.png', d, varsIndxs=[0, 1], calc='interpolation')))
        out.append((N, 'StaticNDPaintListener(surface, interpolation)', lambda d: L.StaticNDPaintListener('p.png', d, varsIndxs=[0, 1], mode='surface', calc='interpolation')))
        out.append((N, 'AnimationNDPaintListener', lambda d: L.AnimationNDPaintListener('p.png', d, varsIndxs=[0, 1])))
    out.append((1, 'AnimationPaintListener', lambda d: L.AnimationPaintListener('p.png', d)))
    out.append((1, 'AnimationPaintListener(points at bottom, no objective)', lambda d: L.AnimationPaintListener('p.png', d, isPointsAtBottom=True, toPaintObjFunc=False)))
    return out


def solve(mods, N, seed, mk_listener, d, iters):
    P = an.problem_class(mods)
    f = an.prefix_function(seed, N)
    lower, upper = an.NBOXES[N]
    log = []

    def obj(ys, i):
        v = f([float(y) for y in ys])
        return v
    prob = P(N, lower, upper, obj)
    s = an.make_solver(mods, prob, 2.5, 0.05, iters, density=6)
    if mk_listener is not None:
        s.AddListener(mk_listener(d))
    sol = s.Solve()
    # evaluations made by the painter itself (it probes the objective on a grid) are not trials: the trial log is the search record
    trials = [(float(it.GetX()), [float(v) for v in it.GetY().floatVariables], float(it.GetZ())) for it in s.searchData._allTrials if it.GetIndex() == 0]
    bt = sol.bestTrials[0]
    res = dict(point=[float(v) for v in bt.point.floatVariables], value=float(bt.functionValues[0].value), trials=sol.numberOfGlobalTrials,
               local=sol.numberOfLocalTrials, accuracy=float(sol.solutionAccuracy))
    res['f_at_point'] = float(f(res['point']))
    return trials, res


def main():
    import matplotlib
    matplotlib.use('Agg')
    mods = an.load()
    bad = []
    n = 0
    for (N, name, mk) in configs(mods):
        for seed in (0, 1):
            d = tempfile.mkdtemp(prefix='c13p_')
            try:
                ref_t, ref_r = solve(mods, N, seed, None, d, 40)
                try:
                    t, r = solve(mods, N, seed, mk, d, 40)
                except Exception as e:
                    bad.append('C13 PAINTER: %s on N=%d f#%d raised %s: %s' % (name, N, seed, type(e).__name__, str(e)[:120]))
                    continue
                n += 1
                if t != ref_t:
                    bad.append('C13 PAINTER: %s on N=%d f#%d changes the trial sequence (%d vs %d trials)' % (name, N, seed, len(t), len(ref_t)))
                for k in ('point', 'value', 'trials', 'local', 'accuracy'):
                    if r[k] != ref_r[k]:
                        bad.append('C13 PAINTER: %s on N=%d f#%d changes the result: %s %r -> %r' % (name, N, seed, k, ref_r[k], r[k]))
                if abs(r['f_at_point'] - r['value']) > 1e-9 * max(1.0, abs(r['value'])):
                    bad.append('C13 PAINTER: %s on N=%d f#%d: returned value %r is not the objective at the returned point (%r)' % (name, N, seed, r['value'], r['f_at_point']))
            finally:
                shutil.rmtree(d, ignore_errors=True)
                import matplotlib.pyplot as plt
                plt.close('all')
    print('painting-listener configurations compared with the listener-free run: %d' % n)
    for b in bad[:12]:
        print('REPRODUCED', b)
    sys.exit(1 if bad else 0)


if __name__ == '__main__':
    main()
