"""C18 -- problem metadata is well-formed and the published tables agree with the functions (DESIGN.md section 5, C18).

TABLES (solver-decided, per row of the Hill and Shekel tables; the function term is obtained by executing the real
Problem.Calculate on a symbolic point):
  min row (v, x):  |f(x) - v| <= 1e-4 (ground);  no point of the range with f < v - 1e-4;  no point farther than 1e-4*range from x
                   with f lower than the (natively refined) minimum inside that neighbourhood  => a global minimiser lies in it;
  max row:         the mirrored obligations;
  Lipschitz row L: the derivative term is obtained by differentiating the rational function the real code produced
                   (chain rule through t = tan(pi x) for Hill); `exists x: |f'(x)| > L(1+1e-3)` must be unsat and
                   `exists x: |f'(x)| >= L(1-1e-3)` must be sat.
METADATA (ground facts, no quantifier to eliminate -- stated as such): every instance of every family declares a dimension
  equal to the lengths of its name and bound vectors, lower < upper, exactly one objective and a known optimum inside the box;
  the instances of a family are all constructed before the first is inspected.
"""
import math
import os
import random
import sys

import z3

sys.path.insert(0, os.path.dirname(os.path.dirname(os.path.abspath(__file__))))
from harness import bench, c10  # noqa: E402
from symex import core, report  # noqa: E402
from symex.core import Explorer, Sym  # noqa: E402

F = bench.F
PID = 'C18'


def poly_diff(t, var, memo=None):
    """d/dvar of a polynomial z3 term (+, -, *, numerals, var), on the DAG"""
    memo = {} if memo is None else memo
    k = t.get_id()
    if k in memo:
        return memo[k]
    if z3.is_rational_value(t) or z3.is_int_value(t):
        r = z3.RealVal(0)
    elif z3.eq(t, var):
        r = z3.RealVal(1)
    elif z3.is_const(t):
        r = z3.RealVal(0)
    else:
        op = t.decl().kind()
        ch = t.children()
        if op == z3.Z3_OP_ADD:
            r = z3.Sum([poly_diff(c, var, memo) for c in ch])
        elif op == z3.Z3_OP_SUB:
            r = poly_diff(ch[0], var, memo)
            for c in ch[1:]:
                r = r - poly_diff(c, var, memo)
        elif op == z3.Z3_OP_UMINUS:
            r = -poly_diff(ch[0], var, memo)
        elif op == z3.Z3_OP_MUL:
            terms = []
            for i in range(len(ch)):
                d = poly_diff(ch[i], var, memo)
                if z3.is_rational_value(d) and d.numerator_as_long() == 0:
                    continue
                p = d
                for j in range(len(ch)):
                    if j != i:
                        p = p * ch[j]
                terms.append(p)
            r = z3.Sum(terms) if terms else z3.RealVal(0)
        elif op == z3.Z3_OP_TO_REAL:
            r = z3.RealVal(0)
        else:
            raise core.HarnessError('poly_diff: unsupported operator %s' % t.decl())
    memo[k] = r
    return r


def refine_min(f, a, b, sign=1.0):
    """native golden-section refinement of the extremum of sign*f on [a, b] (used only to pick the comparison point)"""
    g = (math.sqrt(5) - 1) / 2
    c, d = b - g * (b - a), a + g * (b - a)
    for _ in range(80):
        if sign * f(c) < sign * f(d):
            b, d = d, c
            c = b - g * (b - a)
        else:
            a, c = c, d
            d = a + g * (b - a)
    return (a + b) / 2


def table_job(family, fn):
    st = bench.setup()
    bench.shim_on([family])
    mods = st['mods']
    gen = mods['hillgen'] if family == 'hill' else mods['shekelgen']
    info = {}

    def h(ex):
        if family == 'hill':
            ms = bench.new_math(base=2, K=13)
            p = mods['hill'].Hill(fn)
            lo, up = 0.0, 1.0
            tmin, tmax, L = gen.minHill[fn], gen.maxHill[fn], float(gen.lConstantHill[fn])
        else:
            ms = bench.new_math()
            p = mods['shekel'].Shekel(fn)
            lo, up = 0.0, 10.0
            tmin, tmax, L = gen.minShekel[fn], gen.maxHill[fn], float(gen.lConstantHill[fn])
        rng = up - lo
        fnat = lambda xx: float(bench.evaluate(p, [xx])[0])
        # interference first: a sibling instance of the family is evaluated at the very points used below
        sib = mods['hill'].Hill((fn + 1) % 1000) if family == 'hill' else mods['shekel'].Shekel((fn + 1) % 1000)
        for xx in (float(tmin[1]), float(tmax[1]), 0.123 * rng, 0.77 * rng, 0.5 * rng):
            bench.evaluate(sib, [xx])
        for (row, name) in ((tmin, 'MIN'), (tmax, 'MAX')):
            ex.prove(abs(fnat(float(row[1])) - float(row[0])) <= 1e-4,
                     'C18 %s-VALUE: the tabulated value is the function at the tabulated location (1e-4)' % name, {'row': [float(row[0]), float(row[1])]})
        x = ex.real('x')
        if family != 'hill':
            ex.assume(z3.And(x.t >= F(lo), x.t <= F(up)))
        val = bench.evaluate(p, [x])[0]
        if family == 'hill':
            var = ms.angles.tvar(x).t
            ex.inputs['t'] = var
            to_var = lambda xx: math.tan(math.pi * xx)
        else:
            var = x.t
            to_var = lambda xx: xx
        # validation
        for x0 in (0.123 * rng, 0.77 * rng):
            enc = c10.subst_value(val, var, to_var(x0))
            ex.prove(enc is not None and abs(float(enc) - fnat(x0)) <= 1e-7 * max(1.0, abs(fnat(x0))), 'C18 VALIDATE: the encoding agrees with the native evaluation')

        def outside(xc, d):
            """constraint: the point is farther than d from xc (inside the range)"""
            parts = []
            if family == 'hill':
                if xc - d > lo:
                    parts.append(bench.x_range_to_t(var, lo, xc - d))
                if xc + d < up:
                    parts.append(bench.x_range_to_t(var, xc + d, up))
            else:
                parts = [var < F(xc - d), var > F(xc + d)]
            return z3.Or(*parts) if parts else z3.BoolVal(False)
        for (row, sign, name) in ((tmin, 1.0, 'MIN'), (tmax, -1.0, 'MAX')):
            v, loc = float(row[0]), float(row[1])
            if sign > 0:
                ex.prove(z3.Not((val < v - 1e-4).t), 'C18 MIN-GLOBAL: no point of the range is lower than the tabulated minimum by more than 1e-4', {'row': [v, loc]})
            else:
                ex.prove(z3.Not((val > v + 1e-4).t), 'C18 MAX-GLOBAL: no point of the range is higher than the tabulated maximum by more than 1e-4', {'row': [v, loc]})
            d = 1e-4 * rng
            a, b = max(lo, loc - d), min(up, loc + d)
            y0 = refine_min(fnat, a, b, sign)
            if family == 'hill' and abs(y0 - 0.5) < 1e-9:
                y0 += 1e-7
            f0 = c10.subst_value(val, var, to_var(y0))
            cmpc = (val < z3.RealVal(f0)).t if sign > 0 else (val > z3.RealVal(f0)).t
            labelL = 'C18 %s-LOCATION: a global %s lies within 1e-4 of the range from the tabulated location' % (name, 'minimiser' if sign > 0 else 'maximiser')
            r0 = ex.check(z3.And(outside(loc, d), cmpc))
            if str(r0) == 'unknown':
                # retry with a slack of 1e-7 in VALUE (recorded); if that is not decided either the row is LISTED as undecided and excluded from the claim
                sl = F(1, 10 ** 7)
                cmps = (val < z3.RealVal(f0 - sl)).t if sign > 0 else (val > z3.RealVal(f0 + sl)).t
                r1 = ex.check(z3.And(outside(loc, d), cmps))
                if str(r1) == 'unsat':
                    info.setdefault('slack', []).append((family, fn, name))
                    ex.obligations += 1
                    ex.discharged += 1
                elif str(r1) == 'sat':
                    ex.prove(z3.Not(z3.And(outside(loc, d), cmps)), labelL, {'row': [v, loc], 'inside_point': y0})
                else:
                    info.setdefault('undecided', []).append((family, fn, name))
            else:
                ex.prove(z3.Not(z3.And(outside(loc, d), cmpc)), labelL, {'row': [v, loc], 'inside_point': y0})
            if family == 'hill':
                fh = fnat(0.5)
                ex.prove(fh >= v - 1e-4 if sign > 0 else fh <= v + 1e-4, 'C18 %s-GLOBAL: (x = 1/2, evaluated natively)' % name, {'x': 0.5})
        # Lipschitz constant: derivative of the rational function the real code produced
        num, den = core.to_real(val.t), (val.d if val.d is not None else z3.RealVal(1))
        dn = poly_diff(num, var)
        dd = poly_diff(den, var)
        dnum = dn * den - num * dd           # f' = dnum / den^2   (times pi (1 + t^2) for Hill)
        den2 = den * den
        if family == 'hill':
            scale = math.pi
            dnum = dnum * (1 + var * var)
        else:
            scale = 1.0
        hi = F(L * (1 + 1e-3) / scale)
        lo_ = F(L * (1 - 1e-3) / scale)
        ex.prove(z3.Not(z3.Or(dnum > z3.RealVal(hi) * den2, -dnum > z3.RealVal(hi) * den2)),
                 'C18 LIP-UPPER: nowhere is |f\'| larger than the tabulated Lipschitz constant (0.1%)', {'L': L})
        r = ex.check(z3.Or(dnum >= z3.RealVal(lo_) * den2, -dnum >= z3.RealVal(lo_) * den2))
        ex.prove(str(r) == 'sat', 'C18 LIP-ATTAINED: somewhere |f\'| reaches the tabulated Lipschitz constant (0.1%)', {'L': L, 'solver': str(r)})
        ex.tag(family + '-tables')
    ex = bench.nra('%s tables %d' % (family, fn))
    ex.explore(h)
    bench.shim_off()
    return c10.summary(ex, '%s(%d): min, max and Lipschitz rows' % (family, fn), {'family': family, 'fn': fn, 'level': 'table'},
                       {'location_decided_with_value_slack_1e-7': info.get('slack', []), 'location_undecided': info.get('undecided', [])})


def metadata_job(family, fns):
    st = bench.setup()
    mods = st['mods']

    def mk(fn):
        m = mods
        return {'hill': lambda: m['hill'].Hill(fn), 'shekel': lambda: m['shekel'].Shekel(fn), 'shekel4': lambda: m['shekel4'].Shekel4(fn),
                'grishagin': lambda: m['grishagin'].Grishagin(fn), 'gkls': lambda: m['gkls'].GKLS(*fn),
                'rastrigin': lambda: m['rastrigin'].Rastrigin(fn), 'xsquared': lambda: m['xsquared'].XSquared(fn),
                'stronginC3': lambda: m['stronginC3'].StronginC3()}[family]()

    def h(ex):
        ps = [(fn, mk(fn)) for fn in fns]
        for fn, p in ps:
            N = p.numberOfFloatVariables
            d = {'family': family, 'fn': fn, 'level': 'meta'}
            lo = [float(v) for v in p.lowerBoundOfFloatVariables]
            up = [float(v) for v in p.upperBoundOfFloatVariables]
            ex.prove(isinstance(N, int) and N >= 1 and len(p.floatVariableNames) == N and len(lo) == N and len(up) == N,
                     'C18 META-DIM: the dimension equals the lengths of the name and bound vectors', d)
            ex.prove(all(a < b for a, b in zip(lo, up)), 'C18 META-BOUNDS: lower < upper in every coordinate', d)
            ex.prove(p.numberOfObjectives == 1, 'C18 META-OBJ: exactly one objective', d)
            ko = p.knownOptimum
            ok = len(ko) >= 1 and len(ko[0].point.floatVariables) == N and all(a <= float(v) <= b for a, v, b in zip(lo, ko[0].point.floatVariables, up))
            ex.prove(ok, 'C18 META-OPT: the known optimum lies inside the box', dict(d, x=[float(v) for v in ko[0].point.floatVariables] if len(ko) else None))
        ex.tag('meta-' + family)
    ex = Explorer(mode='EXACT', name='meta %s' % family)
    ex.explore(h)
    return c10.summary(ex, '%s: metadata of %d instances constructed together' % (family, len(fns)), {'family': family, 'level': 'meta'})


REPLAY = r'''
import os, sys, math
sys.path.insert(0, os.environ.get('IOPT_REPO', '/repo'))
from iOpt.trial import Point, FunctionValue
family, fn, level, label = %(family)r, %(fn)r, %(level)r, %(label)r
bad = []
def mk(family, fn):
    import importlib
    if family == 'gkls':
        from iOpt.problems.GKLS import GKLS; return GKLS(*fn)
    mod, cls = {'hill': ('hill', 'Hill'), 'shekel': ('shekel', 'Shekel'), 'shekel4': ('shekel4', 'Shekel4'), 'grishagin': ('grishagin', 'Grishagin'),
                'rastrigin': ('rastrigin', 'Rastrigin'), 'xsquared': ('xsquared', 'XSquared'), 'stronginC3': ('stronginC3', 'StronginC3')}[family]
    C = getattr(importlib.import_module('iOpt.problems.' + mod), cls)
    return C() if family == 'stronginC3' else C(fn)
p = mk(family, fn)
if level == 'meta':
    N = p.numberOfFloatVariables
    lo = [float(v) for v in p.lowerBoundOfFloatVariables]; up = [float(v) for v in p.upperBoundOfFloatVariables]
    if not (len(p.floatVariableNames) == N == len(lo) == len(up)): bad.append('C18 META-DIM: %%s(%%s): dimension %%r, names %%d, bounds %%d/%%d' %% (family, fn, N, len(p.floatVariableNames), len(lo), len(up)))
    if not all(a < b for a, b in zip(lo, up)): bad.append('C18 META-BOUNDS: %%s(%%s): %%r %%r' %% (family, fn, lo, up))
    if p.numberOfObjectives != 1: bad.append('C18 META-OBJ: %%s(%%s) declares %%r objectives' %% (family, fn, p.numberOfObjectives))
    ko = p.knownOptimum
    x = [float(v) for v in ko[0].point.floatVariables] if len(ko) else None
    if x is None or len(x) != N or not all(a <= v <= b for a, v, b in zip(lo, x, up)): bad.append('C18 META-OPT: %%s(%%s): known optimum %%r is not inside the box %%r %%r' %% (family, fn, x, lo, up))
else:
    import importlib
    gen = importlib.import_module('iOpt.problems.Hill.hill_generation' if family == 'hill' else 'iOpt.problems.Shekel.shekel_generation')
    tmin = gen.minHill[fn] if family == 'hill' else gen.minShekel[fn]
    tmax = gen.maxHill[fn]; L = float(gen.lConstantHill[fn])
    lo, up = (0.0, 1.0) if family == 'hill' else (0.0, 10.0)
    sib = mk(family, (fn + 1) %% 1000)
    for xx in (float(tmin[1]), float(tmax[1]), 0.123 * (up - lo), 0.77 * (up - lo), 0.5 * (up - lo)):
        sib.Calculate(Point([xx], []), FunctionValue())      # another instance of the family is evaluated at the same points first
    f = lambda x: float(p.Calculate(Point([x], []), FunctionValue()).value)
    n = 400001
    xs = [lo + (up - lo) * i / (n - 1) for i in range(n)]
    fs = [f(x) for x in xs]
    imin = min(range(n), key=lambda i: fs[i]); imax = max(range(n), key=lambda i: fs[i])
    if abs(f(float(tmin[1])) - float(tmin[0])) > 1e-4 or fs[imin] < float(tmin[0]) - 1e-4: bad.append('C18 MIN: %%s(%%d): table (%%r, %%r) but f(loc) = %%r and min on a grid = %%r at %%r' %% (family, fn, float(tmin[0]), float(tmin[1]), f(float(tmin[1])), fs[imin], xs[imin]))
    elif abs(xs[imin] - float(tmin[1])) > 1e-4 * (up - lo) + 2 * (up - lo) / n and fs[imin] < f(float(tmin[1])) - 1e-9: bad.append('C18 MIN-LOCATION: %%s(%%d): tabulated %%r, grid minimiser %%r' %% (family, fn, float(tmin[1]), xs[imin]))
    if abs(f(float(tmax[1])) - float(tmax[0])) > 1e-4 or fs[imax] > float(tmax[0]) + 1e-4: bad.append('C18 MAX: %%s(%%d): table (%%r, %%r) but f(loc) = %%r and max on a grid = %%r at %%r' %% (family, fn, float(tmax[0]), float(tmax[1]), f(float(tmax[1])), fs[imax], xs[imax]))
    elif abs(xs[imax] - float(tmax[1])) > 1e-4 * (up - lo) + 2 * (up - lo) / n and fs[imax] > f(float(tmax[1])) + 1e-9: bad.append('C18 MAX-LOCATION: %%s(%%d): tabulated %%r, grid maximiser %%r' %% (family, fn, float(tmax[1]), xs[imax]))
    hstep = (up - lo) / (n - 1)
    Lg = max(abs(fs[i + 1] - fs[i]) / hstep for i in range(n - 1))
    if abs(Lg - L) > 2e-3 * L: bad.append('C18 LIP: %%s(%%d): tabulated Lipschitz constant %%r, largest slope on a fine grid %%r' %% (family, fn, L, Lg))
for b in bad: print('REPRODUCED', b)
sys.exit(1 if bad else 0)
'''


def main():
    run = report.Runner(PID, design_ref='5/C18', level='proof')
    st = bench.setup()
    mods = st['mods']
    run.encode(mods['hill'].Hill.Calculate, 'iOpt.problems.hill.Hill.Calculate')
    run.encode(mods['shekel'].Shekel.Calculate, 'iOpt.problems.shekel.Shekel.Calculate')
    for fam, cls in (('hill', 'Hill'), ('shekel', 'Shekel'), ('shekel4', 'Shekel4'), ('grishagin', 'Grishagin'), ('gkls', 'GKLS'),
                     ('rastrigin', 'Rastrigin'), ('xsquared', 'XSquared'), ('stronginC3', 'StronginC3')):
        run.encode(getattr(mods[fam], cls).__init__, 'iOpt.problems.%s.%s.__init__' % (fam, cls))
    run.stub('math.sin / math.cos of k*pi*x -> exact rational functions of t = tan(pi x) (Hill)')
    run.assume('float evaluation vs exact rational term: validated on pinned points (<= 1e-7 relative), far below the table tolerances')
    run.assume('the derivative term is obtained by differentiating the rational function produced by the real code (quotient + chain rule), pi as a float factor')
    quick = run.quick
    rnd = random.Random(run.seed + 18)
    jobs = []
    for fam in ('hill', 'shekel'):
        for fn in (sorted(set(rnd.sample(range(1000), 20)) | {0, 1, 998, 999}) if quick else range(1000)):      # the ends of the argument range always
            jobs.append((table_job, (fam, fn)))
    for a in range(0, 1000, 250):
        jobs.append((metadata_job, ('hill', list(range(a, a + 250)))))
        jobs.append((metadata_job, ('shekel', list(range(a, a + 250)))))
    jobs.append((metadata_job, ('grishagin', list(range(1, 101)))))
    for n in (2, 3, 4, 5):
        jobs.append((metadata_job, ('gkls', [(n, k) for k in range(1, 101)])))
    jobs.append((metadata_job, ('shekel4', [1, 2, 3])))
    jobs.append((metadata_job, ('rastrigin', list(range(1, 13)))))
    jobs.append((metadata_job, ('xsquared', list(range(1, 13)))))
    jobs.append((metadata_job, ('stronginC3', [0])))
    run.bound(tables='Hill and Shekel: %s rows of each table (min, max, Lipschitz)' % ('20 seeded' if quick else 'all 1000'),
              metadata='all 1000 Hill, 1000 Shekel, 100 Grishagin, 400 GKLS, 3 Shekel4, StronginC3, Rastrigin / XSquared N = 1..12')
    run.not_covered('metadata is a ground check (no quantifier); constructor arguments outside the documented ranges; the max / Lipschitz tables have no '
                    'counterpart for the other families')
    run.parallel(jobs, chunks=2)
    seen = set()
    for r, c in run.candidates():
        d = c['detail']
        head = (d.get('family'), str(d.get('fn')), d.get('level'))
        if head in seen or len(seen) > 25:
            continue
        seen.add(head)
        rp = run.write_replay(str(d.get('family')), REPLAY % {'family': d.get('family'), 'fn': d.get('fn'), 'level': d.get('level'), 'label': c['label']})
        ok, out = run.run_replay(rp, timeout=400)
        if ok:
            run.confirmed('C18:%s:%s:%s' % (d.get('family'), d.get('fn'), c['label'][:12]), '%s(%s): %s' % (d.get('family'), d.get('fn'), (out or '').strip()[-300:]), rp)
        else:
            run.unconfirmed('%s %s(%s)' % (c['label'], d.get('family'), d.get('fn')), (out or '')[-300:])
    und = [x for r_ in run.jobs for x in (r_.get('location_undecided') or [])]
    run.extra['table_rows_location_undecided_excluded_from_the_claim'] = und
    run.extra['table_rows_location_decided_with_value_slack_1e-7'] = [x for r_ in run.jobs for x in (r_.get('location_decided_with_value_slack_1e-7') or [])]
    ntab = sum(1 for j in jobs if j[0] is table_job)
    if len(und) > max(2, ntab // 20):
        run.inconclusive.append('location clause undecided for %d of %d table jobs' % (len(und), ntab))
    for x in und[:20]:
        print('NOTE: %s(%s) %s-LOCATION undecided by the solver within the time limit (excluded from the claim, listed in the evidence)' % tuple(x))
    run.finish('metadata well-formed for every instance; for the listed rows the Hill / Shekel minimum, maximum and Lipschitz tables agree with the functions',
               vacuity=['hill-tables', 'shekel-tables', 'meta-hill', 'meta-gkls', 'meta-grishagin', 'meta-stronginC3'])


if __name__ == '__main__':
    main()
