"""C20 -- the configured evolvent density is honoured (DESIGN.md section 5, C20).

(i)   the real Solver.__init__ / Evolvent.__init__ with SolverParameters(evolventDensity = m), m a SYMBOLIC integer in 2..12
      (the loop `for j in range(0, self.evolventDensity)` is split by the solver over its feasible trip counts): the solver's
      evolvent carries the configured density and every trial point of the first iterations satisfies
      (y_i - lower_i) * 2^m / (upper_i - lower_i) - 1/2  in  Z   for N = 2..5 on non-symmetric boxes;
(ii)  Evolvent.GetImage at symbolic m for a set of curve coordinates incl. 0, 1 and non-dyadic points: same grid clause;
(iii) whole runs with arbitrary objective values (N = 2, m in {2,3}; symbolic trial locations): every evaluated point on the grid.
That each level of the descent refines the grid by exactly one bit from every orientation state is lemma A of C07.
"""
import os
import sys

import z3

sys.path.insert(0, os.path.dirname(os.path.dirname(os.path.abspath(__file__))))
from harness import agp, evo, agpnative as an  # noqa: E402
from symex import core, report, shims  # noqa: E402
from symex.core import Explorer, Sym  # noqa: E402

PID = 'C20'
WANT = ('C20',)


def on_grid(ex, y, lo, up, m, label, detail):
    """(y - lo) * 2^m / (up - lo) - 1/2 is an integer"""
    q = (y - lo) * (2 ** m) / (up - lo) - 0.5
    if isinstance(q, Sym) and q.const() is None:
        k = shims.sym_int(q)
        ex.prove(core.rval(k) == core.rval(q), label, detail)
    else:
        qq = core._const_of(core.rval(q))
        ex.prove(qq.denominator == 1 and 0 <= qq < 2 ** m, label, detail)


def solver_job(N, iters):
    st = agp.setup()
    mods = st['mods']

    def h(ex):
        m = ex.int('density')
        mc = ex.concretize(m.t, 2, 12)
        obj = agp.Objective(ex)
        # a coarse eps: the configured density must be honoured whatever the accuracy asked for
        s, prob = agp.new_solver(ex, N, obj, 2.5, 0.3 if N % 2 == 0 else 1e-9, 1000, density=mc)
        ex.prove(s.evolvent.evolventDensity == mc and s.method.evolvent is s.evolvent,
                 'C20 CONFIG: the solver\'s evolvent carries SolverParameters.evolventDensity', {'N': N, 'm': mc})
        s.DoGlobalIteration(iters if mc <= 3 else min(iters, 2))
        lo, up = agp.BOXES[N]
        for ys in prob.started:
            for c in range(N):
                on_grid(ex, ys[c], lo[c], up[c], mc, 'C20 GRID: every trial coordinate is lower + (j + 1/2)(upper - lower)/2^m', {'N': N, 'm': mc})
        ex.tag('density-%d' % mc)
        return mc
    ex = agp.exact_explorer('SOLVER N=%d' % N)
    ex.explore(h, sample_every=3)
    return agp.summary(ex, 'Solver with symbolic evolventDensity in 2..12, N=%d, %d iterations' % (N, iters), {'N': N},
                       {'level': 'c20', 'N': N, 'iters': iters})


def image_job(N):
    evo.setup()

    def h(ex):
        m = ex.int('density')
        ex.assume(z3.And(m.t >= 2, m.t <= 50 // N))      # every density with N*m <= 50
        lo, up = agp.BOXES[N]
        ev = evo.mk_evolvent(N, m, lo, up)            # symbolic density: the descent loop is split by the solver
        xi = ex.int('which_x')
        xs = [0.5, 0.0, 1.0, 0.3, 0.7000000000000001, 0.123456789, 0.999999, 1.0 - 2.0 ** -49]
        i = ex.concretize(xi.t, 0, len(xs) - 1)
        y = ev.GetImage(xs[i])
        mc = ev.evolventDensity if not isinstance(ev.evolventDensity, Sym) else ex.concretize(ev.evolventDensity.t)
        mreq = ex.concretize(m.t)
        ex.prove(mc == mreq, 'C20 IMAGE-CONFIG: the Evolvent keeps the density it was built with', {'N': N, 'm': mreq})
        for c in range(N):
            on_grid(ex, y[c], lo[c], up[c], mc, 'C20 IMAGE: GetImage lands on the cell-centre grid of the configured density', {'N': N, 'm': mc, 'x': xs[i]})
        # at full depth the last two subintervals have different images
        K = 2 ** (N * mreq)
        ya, yb = ev.GetImage((2 * K - 3) / (2.0 * K)), ev.GetImage((2 * K - 1) / (2.0 * K))
        ex.prove(any(float(a) != float(b) for a, b in zip(ya, yb)), 'C20 IMAGE-DEPTH: the two last subintervals of density m have different cells', {'N': N, 'm': mreq})
        ex.tag('image-density-%d' % mc)
        return mc
    ex = Explorer(mode='EXACT', name='IMAGE N=%d' % N, timeout_ms=30000)
    ex.explore(h, sample_every=11)
    return agp.summary(ex, 'GetImage at symbolic density 2..12, N=%d, 7 curve coordinates' % N, {'N': N}, {'level': 'c20', 'N': N, 'iters': 0})


def grid_clauses(mods, ctx, want):
    out = []
    m = ctx['solver'].evolvent.evolventDensity
    lo, up = ctx['lower'], ctx['upper']
    for ys in ctx['prob'].started:
        for c in range(len(ys)):
            q = (ys[c] - lo[c]) * (2 ** m) / (up[c] - lo[c]) - 0.5
            if an.concrete(q):
                out.append(('C20 GRID: every trial coordinate is lower + (j + 1/2)(upper - lower)/2^m', abs(q - round(q)) < 1e-9))
            else:
                cq = q.const()
                if cq is not None:
                    out.append(('C20 GRID: every trial coordinate is lower + (j + 1/2)(upper - lower)/2^m', cq.denominator == 1))
                else:
                    k = shims.sym_int(q)
                    out.append(('C20 GRID: every trial coordinate is lower + (j + 1/2)(upper - lower)/2^m', k == q))
    out.append(('C20 CONFIG: the solver\'s evolvent carries SolverParameters.evolventDensity', m == ctx['cfg'].get('density')))
    return out


def run_job(cfg, label):
    return agp.scenario_job(cfg, WANT, extra=grid_clauses, label=label)


REPLAY = r'''
import sys, os
sys.path.insert(0, os.environ.get('IOPT_REPO', '/repo'))
from iOpt.solver import Solver
from iOpt.solver_parametrs import SolverParameters
from iOpt.problem import Problem
N, BOX = %(N)d, %(box)r
class P(Problem):
    def __init__(self):
        super().__init__()
        self.numberOfFloatVariables = N; self.numberOfObjectives = 1; self.numberOfConstraints = 0
        self.floatVariableNames = ['x%%d' %% i for i in range(N)]
        self.lowerBoundOfFloatVariables = list(BOX[0]); self.upperBoundOfFloatVariables = list(BOX[1]); self.log = []
    def Calculate(self, point, fv):
        self.log.append([float(v) for v in point.floatVariables]); fv.value = sum((v - 0.3) ** 2 for v in point.floatVariables); return fv
bad = 0
from iOpt.evolvent.evolvent import Evolvent
for m in range(2, 50 // N + 1):
    e = Evolvent(list(BOX[0]), list(BOX[1]), N, m); K = 2 ** (N * m)
    if e.evolventDensity != m or list(e.GetImage((2 * K - 3) / (2.0 * K))) == list(e.GetImage((2 * K - 1) / (2.0 * K))):
        print('REPRODUCED C20 IMAGE: N=%%d: an Evolvent built with density %%d has density %%r / does not separate its last two subintervals' %% (N, m, e.evolventDensity)); bad = 1; break
for m, eps in [(m, e) for m in range(2, 13) for e in (1e-9, 0.3)]:
    p = P(); s = Solver(p, SolverParameters(r=2.5, eps=eps, itersLimit=12, evolventDensity=m)); s.Solve()
    if s.evolvent.evolventDensity != m:
        print('REPRODUCED C20 CONFIG: N=%%d evolventDensity=%%d but the solver\'s evolvent has density %%r' %% (N, m, s.evolvent.evolventDensity)); bad = 1
    for y in p.log:
        for c in range(N):
            q = (y[c] - BOX[0][c]) * 2 ** m / (BOX[1][c] - BOX[0][c]) - 0.5
            if abs(q - round(q)) > 1e-9:
                print('REPRODUCED C20 GRID: N=%%d density=%%d trial %%r coordinate %%d is off the cell-centre grid (index %%r)' %% (N, m, y, c, q)); bad = 1; break
        if bad: break
    if bad: break
sys.exit(bad)
'''


def main():
    run = report.Runner(PID, design_ref='5/C20')
    agp.describe(run, what=('solver',))
    evo.describe(run)
    agp.describe_stubs(run)
    quick = run.quick
    jobs = []
    for N in (2, 3, 4, 5):
        jobs.append((solver_job, (N, 3 if N == 2 else 2)))
        jobs.append((image_job, (N,)))
    for m in ((2,) if quick else (2, 3)):
        for sd in ((0,) if quick else (0, 1, 2)):
            cfg = dict(N=2, r=2.5, seed=sd, kpre=1, nsym=3, script=[('iter', 3)], density=m, overrides=['iter'], tags=['run-density-%d' % m])
            jobs.append((run_job, (cfg, 'N=2 density %d: 1 concrete + 2 arbitrary values, trial locations symbolic' % m)))
    for sd in (0, 1):
        # longer runs on a coarse grid: intervals shrink to single cells of the evolvent
        cfg = dict(N=2, r=2.5, seed=sd, kpre=13, nsym=1, script=[('iter', 14)], density=2, overrides=['iter'], tags=['long-run-density-2'])
        jobs.append((run_job, (cfg, 'N=2 density 2: 14 trials of a concrete run (intervals shrink to single cells; ground part)')))
    run.bound(density='Solver: symbolic integer 2..12; Evolvent alone: every density with N*m <= 50 (solver-split); N = 2..5, non-symmetric boxes; first 2 iterations (3 for density <= 3) with arbitrary '
                      'objective values; whole runs with symbolic trial locations for N = 2, density 2 (thorough: 3)')
    run.not_covered('densities above 12; N*m > 50 (binary64 exactness of the descent); symbolic boxes (C05/C07 box clause)')
    run.parallel(jobs)
    done = set()
    for r, c in run.candidates():
        d = c['detail']
        if d.get('level') == 'c20' and d['N'] not in done:
            done.add(d['N'])
            rp = run.write_replay('grid', REPLAY % {'N': d['N'], 'box': agp.BOXES[d['N']]})
            ok, out = run.run_replay(rp)
            if ok:
                run.confirmed('C20:%s:N%d' % (c['label'].split(':')[0], d['N']), '%s: %s' % (c['label'], (out or '').strip()[-300:]), rp)
            else:
                run.unconfirmed(c['label'], (out or '')[-300:])
    for rr in run.jobs:
        rr['cex'] = [x for x in rr.get('cex', []) if x['detail'].get('level') != 'c20']
    agp.confirm(run, WANT)
    run.finish('the solver builds its evolvent with the configured density and every trial coordinate is lower + (j+1/2)(upper-lower)/2^m',
               vacuity=['density-2', 'density-7', 'density-12', 'image-density-2', 'image-density-12', 'image-density-25', 'run-density-2', 'long-run-density-2'])


if __name__ == '__main__':
    main()
