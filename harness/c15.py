"""C15 -- benchmark evaluation is a pure function of the point (DESIGN.md section 5, C15).

For every family: instance P, a sibling S of the same family, an instance O of another family, symbolic points x, x' of the box.
Interference sequences (all through the public Problem.Calculate):
   v1 = P(x);  S(x'), O(.), [P(x')], [P(x with one coordinate replaced)];  v2 = P(x)
Obligations decided by the solver for ALL x, x': v1 = v2 (self-composition: both values are terms over the same symbols); each
call returns the supplied value holder and stores the value in it; the earlier holder still holds v1; the point's coordinates
are the same terms afterwards; a deep snapshot of P's attributes and of the generation modules' tables is unchanged.
The same sequences are also run on concrete points (ground part: repeated evaluation of one concrete point with different
holders), which is where identity-keyed caches would show.
Families: Hill, Shekel, Shekel4, Grishagin, GKLS (n = 2,3), Rastrigin, XSquared, StronginC3 (exp / sin of non-multiples of pi as
opaque functions of their argument term: enough for equality of two evaluations).
"""
import os
import random
import sys

import numpy as np
import z3

sys.path.insert(0, os.path.dirname(os.path.dirname(os.path.abspath(__file__))))
from harness import bench, c10  # noqa: E402
from symex import core, report, shims  # noqa: E402
from symex.core import Explorer, Sym  # noqa: E402

F = bench.F
PID = 'C15'
FAMS = ('hill', 'shekel', 'shekel4', 'grishagin', 'gkls', 'rastrigin', 'xsquared', 'stronginC3')


def mk(mods, family, fn):
    return {'hill': lambda: mods['hill'].Hill(fn), 'shekel': lambda: mods['shekel'].Shekel(fn), 'shekel4': lambda: mods['shekel4'].Shekel4(fn),
            'grishagin': lambda: mods['grishagin'].Grishagin(fn), 'gkls': lambda: mods['gkls'].GKLS(*fn),
            'rastrigin': lambda: mods['rastrigin'].Rastrigin(fn), 'xsquared': lambda: mods['xsquared'].XSquared(fn),
            'stronginC3': lambda: mods['stronginC3'].StronginC3()}[family]()


def sibling_id(family, fn):
    if family in ('hill', 'shekel'):
        return (fn + 7) % 1000
    if family == 'shekel4':
        return fn % 3 + 1
    if family == 'grishagin':
        return fn % 100 + 1
    if family == 'gkls':
        return (fn[0], fn[1] % 100 + 1)
    if family in ('rastrigin', 'xsquared'):
        return fn
    return 0


def snap(o, depth=0, seen=None):
    seen = {} if seen is None else seen
    if isinstance(o, Sym):
        return ('sym', z3.simplify(o.term()).sexpr())
    if isinstance(o, (bool, int, float, str, bytes, type(None))):
        return o
    if isinstance(o, np.generic):
        return o.item()
    if isinstance(o, np.ndarray):
        if o.dtype == object:
            return ('ndo', o.shape, tuple(snap(v, depth + 1, seen) for v in o.flat))
        return ('nd', o.shape, o.dtype.str, o.tobytes())
    if isinstance(o, (list, tuple, shims.SArr)):
        return ('seq', type(o).__name__, tuple(snap(v, depth + 1, seen) for v in o))
    if isinstance(o, dict):
        return ('dict', tuple(sorted((repr(k), snap(v, depth + 1, seen)) for k, v in o.items())))
    if id(o) in seen or depth > 6:
        return ('ref', type(o).__name__)
    seen[id(o)] = 1
    if hasattr(o, '__dict__') and not isinstance(o, type) and not callable(o):
        return ('obj', type(o).__name__, tuple(sorted((k, snap(v, depth + 1, seen)) for k, v in vars(o).items())))
    return ('other', type(o).__name__, getattr(o, 'name', None))


def tables(mods):
    out = []
    for mn in ('hillgen', 'shekelgen'):
        m = mods[mn]
        for n in sorted(vars(m)):
            v = getattr(m, n)
            if isinstance(v, np.ndarray):
                out.append((mn, n, v.tobytes()))
    return tuple(out)


def box_point(ex, p, prefix, concrete=None):
    lo = [float(v) for v in p.lowerBoundOfFloatVariables]
    up = [float(v) for v in p.upperBoundOfFloatVariables]
    if concrete is not None:
        return [lo[c] + (up[c] - lo[c]) * concrete[c % len(concrete)] for c in range(len(lo))]
    pt = []
    for c in range(len(lo)):
        x = ex.real('%s%d' % (prefix, c))
        ex.assume(z3.And(x.t >= F(lo[c]), x.t <= F(up[c])))
        pt.append(x)
    return pt


def call(mods, p, pt, buf=None):
    T = mods['trial']
    fv = T.FunctionValue()
    if buf is not None:
        # the caller re-uses ONE array for all its points and overwrites it in place
        for i, v in enumerate(pt):
            buf[i] = v
        arr = buf
    else:
        arr = shims.SArr(list(pt), 'f') if any(isinstance(v, Sym) for v in pt) else np.array([float(v) for v in pt], dtype=np.double)
    before = [core.rval(v) if isinstance(v, Sym) else float(v) for v in arr]
    point = T.Point(arr, [])
    out = p.Calculate(point, fv)
    after = list(point.floatVariables)
    same_pt = len(after) == len(before) and all((z3.eq(core.rval(a), b) if isinstance(a, Sym) else float(a) == b) for a, b in zip(after, before))
    return out, fv, same_pt


def clean_reference(mods, family, requests):
    """values computed in a child process forked BEFORE this job evaluated anything (no evaluation history): [(fn, point)] -> [float]"""
    import json
    r, w = os.pipe()
    pid = os.fork()
    if pid == 0:
        try:
            out = []
            for fn, pt in requests:
                p = mk(mods, family, fn)
                out.append(float(call(mods, p, pt)[1].value))
            os.write(w, json.dumps(out).encode())
        finally:
            os._exit(0)
    os.close(w)
    data = b''
    while True:
        chunk = os.read(r, 65536)
        if not chunk:
            break
        data += chunk
    os.close(r)
    os.waitpid(pid, 0)
    return json.loads(data.decode()) if data else None


def eq(a, b):
    if isinstance(a, Sym) or isinstance(b, Sym):
        c = (a == b)
        return c.t if isinstance(c, core.SymBool) else z3.BoolVal(bool(c))
    return z3.BoolVal(float(a) == float(b))


def pure_job(family, fn, variant, symbolic=True):
    st = bench.setup()
    names = [family] + (['grishagin_f'] if family == 'grishagin' else []) + (['gkls_f'] if family == 'gkls' else [])
    other = 'shekel' if family != 'shekel' else 'hill'
    bench.shim_on(list(set(names + [other])))
    mods = st['mods']
    d = {'family': family, 'fn': fn, 'variant': variant, 'symbolic': symbolic}

    def h(ex):
        bench.new_math(trig_mode='tanhalf' if family == 'hill' else 'interval', base=2 if family == 'hill' else 1,
                       K=13 if family == 'hill' else None)
        st['ms'].opaque = family != 'gkls'      # GKLS needs the real square root (its guard and its cubic use differently ordered norms)
        P = mk(mods, family, fn)
        S = mk(mods, family, sibling_id(family, fn))
        O = mk(mods, other, 3)
        x = box_point(ex, P, 'x', None if symbolic else (0.3137, 0.6291, 0.1173, 0.8467, 0.5519))
        # GKLS forks once per attraction ball and per call: only the repeated point is symbolic there
        x2 = box_point(ex, P, 'y', None if (symbolic and family != 'gkls') else (0.7713, 0.2239, 0.9017, 0.4463, 0.0871))
        ref = None
        if not symbolic:
            xo_ = [float(v) for v in P.knownOptimum[0].point.floatVariables]
            ref = clean_reference(mods, family, [(fn, x), (sibling_id(family, fn), x), (sibling_id(family, fn), x2), (fn, xo_), (fn, x2)])
        s0, t0 = snap(P), tables(mods)
        buf = None
        if variant == 'reused-buffer':
            buf = shims.SArr([0.0] * len(x), 'f') if symbolic else np.zeros(len(x), dtype=np.double)
        r1, h1, same1 = call(mods, P, x, buf)
        v1 = h1.value
        ex.prove(r1 is h1, 'C15 HOLDER: Calculate returns the supplied value holder', d)
        ex.prove(same1, 'C15 POINT: the evaluation does not modify the point', d)
        # interference
        call(mods, S, x2, buf)
        call(mods, O, box_point(ex, O, 'o', (0.41,)))
        if variant in ('at-optimum', 'reused-buffer'):
            xo = [float(v) for v in P.knownOptimum[0].point.floatVariables]
            v_x2 = call(mods, P, x2, buf)[1].value              # somewhere else first, then exactly at the declared optimum, then back to the repeated point
            v_xo = call(mods, P, xo, buf)[1].value
            if ref is not None:
                ex.prove(float(v_xo) == ref[3] and float(v_x2) == ref[4],
                         'C15 HISTORY: the value does not depend on which other instances were evaluated before (clean-process reference)', d)              # an evaluation exactly at the declared optimum immediately before the repeated point
        if variant in ('full', 'partial'):
            call(mods, P, x2)
        if variant == 'partial' and len(x) > 1:
            call(mods, S, [x2[0]] + list(x[1:]))
            call(mods, P, [x[0]] + list(x2[1:]))        # keeps the first coordinate, changes the others
        if variant == 'sibling-same-point':
            vs = call(mods, S, x)[1].value
            if ref is not None:
                ex.prove(float(vs) == ref[1], 'C15 HISTORY: the value does not depend on which other instances were evaluated before (clean-process reference)', d)
        if ref is not None:
            ex.prove(float(v1) == ref[0], 'C15 HISTORY: the value does not depend on which other instances were evaluated before (clean-process reference)', d)
        r2, h2, same2 = call(mods, P, x, buf)
        ex.prove(r2 is h2 and h2 is not h1, 'C15 HOLDER: a repeated evaluation fills the newly supplied holder', d)
        ex.prove(eq(v1, h2.value), 'C15 SAME: evaluating the same point again gives the same value whatever happened in between', d)
        ex.prove(eq(v1, h1.value), 'C15 KEPT: the holder of the first evaluation still holds its value', d)
        ex.prove(same2, 'C15 POINT: the evaluation does not modify the point', d)
        # internal caches that do not change results are allowed: state / table snapshots are observations, not obligations
        if snap(P) == s0:
            ex.tag('problem-object-unchanged')
        ex.prove(tables(mods) == t0, 'C15 TABLES: the published generation tables are not modified by evaluations', d)
        ex.tag(family)
        ex.tag('variant-' + variant)
        ex.tag('symbolic-points' if symbolic else 'concrete-points')
    ex = bench.nra('%s %s %s' % (family, fn, variant))
    ex.explore(h)
    bench.shim_off()
    return c10.summary(ex, '%s(%s): %s interference, %s points' % (family, fn, variant, 'symbolic' if symbolic else 'concrete'), d)


REPLAY = r'''
import os, sys
sys.path.insert(0, os.environ.get('IOPT_REPO', '/repo'))
import numpy as np, importlib, copy, pickle
from fractions import Fraction as F
from iOpt.trial import Point, FunctionValue
family, fn, variant, model = %(family)r, %(fn)r, %(variant)r, %(model)r
def mk(family, fn):
    if family == 'gkls':
        from iOpt.problems.GKLS import GKLS; return GKLS(*fn)
    mod, cls = {'hill': ('hill', 'Hill'), 'shekel': ('shekel', 'Shekel'), 'shekel4': ('shekel4', 'Shekel4'), 'grishagin': ('grishagin', 'Grishagin'),
                'rastrigin': ('rastrigin', 'Rastrigin'), 'xsquared': ('xsquared', 'XSquared'), 'stronginC3': ('stronginC3', 'StronginC3')}[family]
    C = getattr(importlib.import_module('iOpt.problems.' + mod), cls)
    return C() if family == 'stronginC3' else C(fn)
def sib(family, fn):
    if family in ('hill', 'shekel'): return (fn + 7) %% 1000
    if family == 'shekel4': return fn %% 3 + 1
    if family == 'grishagin': return fn %% 100 + 1
    if family == 'gkls': return (fn[0], fn[1] %% 100 + 1)
    return fn if family in ('rastrigin', 'xsquared') else 0
P, S = mk(family, fn), mk(family, sib(family, fn))
O = mk('shekel' if family != 'shekel' else 'hill', 3)
lo = [float(v) for v in P.lowerBoundOfFloatVariables]; up = [float(v) for v in P.upperBoundOfFloatVariables]
def num(k, dflt):
    try: return float(F(str(model[k]).rstrip('?')))
    except Exception: return dflt
dx = (0.3137, 0.6291, 0.1173, 0.8467, 0.5519); dy = (0.7713, 0.2239, 0.9017, 0.4463, 0.0871)
x = [num('x%%d' %% c, lo[c] + (up[c] - lo[c]) * dx[c %% 5]) for c in range(len(lo))]
y = [num('y%%d' %% c, lo[c] + (up[c] - lo[c]) * dy[c %% 5]) for c in range(len(lo))]
bad = []
BUF = np.zeros(len(lo), dtype=np.double) if variant == 'reused-buffer' else None
def call(p, pt):
    fv = FunctionValue()
    if BUF is not None:
        BUF[:] = pt; arr = BUF
    else:
        arr = np.array(pt, dtype=np.double)
    keep = arr.copy()
    out = p.Calculate(Point(arr, []), fv)
    if list(arr) != list(keep): bad.append('C15 POINT: Calculate modified the point %%r -> %%r' %% (list(keep), list(arr)))
    return out, fv
def state(p):
    try: return pickle.dumps(p.__dict__)
    except Exception: return repr(sorted(p.__dict__))
s0 = state(P)
xo = [float(v) for v in P.knownOptimum[0].point.floatVariables]
REF = mk(family, fn); ref_xo = float(REF.Calculate(Point(np.array(xo), []), FunctionValue()).value); ref_y = float(REF.Calculate(Point(np.array(y), []), FunctionValue()).value)
r1, h1 = call(P, x); v1 = h1.value
if r1 is not h1: bad.append('C15 HOLDER: Calculate did not return the supplied holder')
call(S, y); call(O, [float(O.lowerBoundOfFloatVariables[0]) + 0.41 * (float(O.upperBoundOfFloatVariables[0]) - float(O.lowerBoundOfFloatVariables[0]))])
if variant in ('at-optimum', 'reused-buffer'):
    vy = float(call(P, y)[1].value); vo = float(call(P, xo)[1].value)
    if vy != ref_y or vo != ref_xo: bad.append('C15 HISTORY: %%s(%%s): after earlier evaluations f(%%r) = %%r (fresh instance %%r), f(x*) = %%r (fresh instance %%r)' %% (family, fn, y, vy, ref_y, vo, ref_xo))
if variant in ('full', 'partial'): call(P, y)
if variant == 'partial' and len(x) > 1:
    call(S, [y[0]] + x[1:]); call(P, [x[0]] + y[1:])
if variant == 'sibling-same-point':
    vs = float(call(S, x)[1].value)
    import subprocess, json
    code = "import sys, json; sys.path.insert(0, %%r); exec(open(%%r).read().split('P, S = mk')[0]); print(json.dumps(float(mk(%%r, %%r).Calculate(Point(np.array(%%r), []), FunctionValue()).value)))" %% (os.environ.get('IOPT_REPO', '/repo'), os.path.abspath(__file__), family, sib(family, fn), x)
    out = subprocess.run([sys.executable, '-W', 'ignore', '-c', code], capture_output=True, text=True).stdout.strip().splitlines()
    if out:
        refv = json.loads(out[-1])
        if refv != vs: bad.append('C15 HISTORY: %%s(%%s) at %%r gives %%r after another instance was evaluated there, %%r in a clean process' %% (family, sib(family, fn), x, vs, refv))
r2, h2 = call(P, x)
if r2 is not h2 or h2 is h1: bad.append('C15 HOLDER: the repeated evaluation did not fill / return the newly supplied holder')
if float(h2.value) != float(v1): bad.append('C15 SAME: %%s(%%s) at %%r: first evaluation %%r, after interference %%r' %% (family, fn, x, float(v1), float(h2.value)))
if float(h1.value) != float(v1): bad.append('C15 KEPT: the first holder changed from %%r to %%r' %% (float(v1), float(h1.value)))
for b in bad: print('REPRODUCED', b)
sys.exit(1 if bad else 0)
'''


def main():
    run = report.Runner(PID, design_ref='5/C15')
    st = bench.setup()
    mods = st['mods']
    for fam, cls in (('hill', 'Hill'), ('shekel', 'Shekel'), ('shekel4', 'Shekel4'), ('grishagin', 'Grishagin'), ('gkls', 'GKLS'),
                     ('rastrigin', 'Rastrigin'), ('xsquared', 'XSquared'), ('stronginC3', 'StronginC3')):
        run.encode(getattr(mods[fam], cls).Calculate, 'iOpt.problems.%s.%s.Calculate' % (fam, cls))
    run.encode(mods['grishagin_f'].GrishaginFunction.Calculate, 'iOpt.problems.grishagin_function.grishagin_function.GrishaginFunction.Calculate')
    run.encode(mods['gkls_f'].GKLSFunction.CalculateDFunction, 'iOpt.problems.GKLS_function.gkls_function.GKLSFunction.CalculateDFunction')
    run.stub('math / numpy inside the problem modules -> shims; sin, cos, exp of arguments that are not modelled exactly are opaque functions of '
             'their argument term (one fresh real per distinct term): sufficient and sound for proving that two evaluations agree')
    quick = run.quick
    rnd = random.Random(run.seed + 15)
    jobs = []
    per = 3 if quick else 25
    ids = {'hill': rnd.sample(range(1000), per), 'shekel': rnd.sample(range(1000), per), 'shekel4': [1, 2, 3],
           'grishagin': rnd.sample(range(1, 101), per), 'gkls': [(2, k) for k in rnd.sample(range(1, 101), per)] + [(3, rnd.randrange(1, 101))],
           'rastrigin': [1, 2, 3] if quick else [1, 2, 3, 4, 5], 'xsquared': [1, 3] if quick else [1, 2, 3, 4, 5], 'stronginC3': [0]}
    for fam in FAMS:
        for fn in ids[fam]:
            for variant in ('short', 'full', 'partial', 'sibling-same-point', 'at-optimum', 'reused-buffer'):
                jobs.append((pure_job, (fam, fn, variant, False)))
                if fam == 'gkls' and (fn[0] > 2 or variant in ('partial', 'sibling-same-point', 'reused-buffer')):
                    continue        # two symbolic points in 3-D GKLS: 10 x 10 ball combinations per call, skipped
                jobs.append((pure_job, (fam, fn, variant, True)))
    run.bound(instances={k: len(v) for k, v in ids.items()}, sequences='P(x); S(x\'), O(.), [P(x\')], [S / P with one coordinate kept], [P at its declared optimum], [all through one re-used point array]; P(x)  -- 6 variants',
              points='x, x\' arbitrary points of the box (solver-decided) and one concrete pair per instance')
    run.not_covered('interference sequences longer than the listed ones; GKLS n >= 3 with symbolic points; threads')
    run.parallel(jobs, chunks=2)
    seen = set()
    for r, c in run.candidates():
        d = c['detail']
        head = (d.get('family'), str(d.get('fn')), d.get('variant'), c['label'][:9])
        if (d.get('family'), c['label'][:9]) in seen:
            continue
        rp = run.write_replay(str(d.get('family')), REPLAY % {'family': d.get('family'), 'fn': d.get('fn'), 'variant': d.get('variant'), 'model': c['model']})
        ok, out = run.run_replay(rp)
        if ok:
            seen.add((d.get('family'), c['label'][:9]))
            run.confirmed('C15:%s:%s' % (d.get('family'), c['label'][:9]), '%s(%s) %s: %s' % (d.get('family'), d.get('fn'), d.get('variant'), (out or '').strip()[-300:]), rp)
        elif len(run.cex_unconfirmed) < 6:
            run.unconfirmed('%s %s(%s) %s' % (c['label'], d.get('family'), d.get('fn'), d.get('variant')), (out or '')[-300:])
    if run.violations:
        run.cex_unconfirmed = []
    run.finish('for the listed instances and interference sequences, and every pair of points of the box: the same point evaluates to the same value, '
               'the supplied holder is returned and filled, the point and the problem state are not modified',
               vacuity=list(FAMS) + ['variant-short', 'variant-partial', 'symbolic-points', 'concrete-points'])


if __name__ == '__main__':
    main()
