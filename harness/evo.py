"""Common set-up for the evolvent checks (C07, C08, C09, C17, C20): imports the repository's evolvent module
from /repo's working tree, installs the shims, slices the per-level loop bodies and offers the level harnesses."""
import fractions
import os
import sys

import z3

sys.path.insert(0, os.path.dirname(os.path.dirname(os.path.abspath(__file__))))
from symex import core, shims, slicer, report  # noqa: E402
from symex.core import Explorer, Sym, HarnessError  # noqa: E402

F = fractions.Fraction
_STATE = {}


def setup():
    """Import evolvent from the current tree, install shims, slice.  Idempotent per process."""
    if _STATE:
        return _STATE
    report.fresh_repo_import()
    import iOpt.evolvent.evolvent as evm
    ms = shims.MathShim()
    nps = shims.NPShim(ms)
    shims.install(evm, np=nps, math=ms, int_=True)
    sl = slicer.slice_evolvent(evm, evm.__file__)
    _STATE.update(evm=evm, ms=ms, nps=nps, sl=sl)
    return _STATE


def describe(run):
    st = setup()
    evm = st['evm']
    for n in ('GetImage', 'GetInverseImage', 'GetPreimages', 'SetBounds', '_Evolvent__GetYonX', '_Evolvent__GetXonY',
              '_Evolvent__CalculateNode', '_Evolvent__CalculateNumbr', '_Evolvent__TransformP2D', '_Evolvent__TransformD2P'):
        if hasattr(evm.Evolvent, n):
            run.encode(getattr(evm.Evolvent, n), 'iOpt.evolvent.evolvent.Evolvent.' + n.replace('_Evolvent', ''))
    run.extra['evolvent_source_sha256'] = st['sl']['source_sha256']
    run.extra['sliced'] = st['sl']['functions']
    run.stub('numpy inside iOpt.evolvent.evolvent -> symex.shims.NPShim (dtype-tagged lists; int arrays truncate on store; '
             'np.copy/np.array copy, np.asarray aliases a same-kind array)')
    run.stub('math.isclose -> exact formula a==b or |a-b| <= max(rel_tol*max(|a|,|b|), abs_tol) as a z3 term')
    run.stub('builtin int() -> truncation toward zero (fresh k with k <= d < k+1 for d >= 0)')
    run.assume('binary64 arithmetic on the unit cube is exact for x a double in [0,1] and N*m <= 50 (multiplication by 2^N, '
               'subtraction of the integer part, sums of +-2^-(j+2)): floats are modelled as reals')


def mk_evolvent(N, m, lower=None, upper=None):
    st = setup()
    lower = [0.0] * N if lower is None else lower
    upper = [1.0] * N if upper is None else upper
    return st['evm'].Evolvent(lower, upper, N, m)


def sym_state(ex, N, prefix=''):
    """Arbitrary orientation state (it, iw) -- concretised by solver-guided case split (all N*2^N states)."""
    it = ex.int(prefix + 'it')
    ex.assume(z3.And(it.t >= 0, it.t < N))
    itc = ex.concretize(it.t)
    iw = []
    for i in range(N):
        w = ex.int('%siw%d' % (prefix, i))
        ex.assume(z3.Or(w.t == 1, w.t == -1))
        iw.append(ex.concretize(w.t))
    return itc, iw


def fwd_level(ev, _x, d, r, it, iw, y, j=0):
    """One level of the real forward descent from the given state (sliced loop body)."""
    st = setup()
    nps = st['nps']
    N = ev.numberOfFloatVariables
    ev.yValues = shims.SArr(list(y), 'f')
    iwa = shims.SArr(list(iw), 'i')
    iu = nps.zeros(N, dtype='int32')
    iv = nps.zeros(N, dtype='int32')
    d2, r2, it2, iw2, iu2, iv2, iis = st['sl']['fwd_step'](ev, _x, d, r, it, iwa, iu, iv, j)
    return d2, r2, it2, list(iw2), iis, list(ev.yValues)


def inv_level(ev, r, r1, x, it, w, y, j=0):
    """One level of the real inverse descent from the given state (sliced loop body)."""
    st = setup()
    nps = st['nps']
    N = ev.numberOfFloatVariables
    ev.yValues = shims.SArr(list(y), 'f')
    wa = shims.SArr(list(w), 'i')
    u = nps.zeros(N, dtype='int32')
    v = nps.zeros(N, dtype='int32')
    r2, r12, x2, it2, w2, u2, v2, iis = st['sl']['inv_step'](ev, r, r1, x, it, wa, u, v, j)
    return r2, r12, x2, it2, list(w2), iis, list(ev.yValues)


def T(x):
    return core.rval(x)


def I(x):
    return core.val(x)


NATIVE_ORACLE = r'''
"""Native oracle for the evolvent properties (no shims, repository's own interpreter).
ARGS = [N, m_max, clauses, x-values as fractions 'p/q' ...]
exit 1 = a violation of C07/C08/C09 reproduces on the real code; exit 0 = none found in the explored range."""
import sys, os
from fractions import Fraction as F
sys.path.insert(0, os.environ.get('IOPT_REPO', '/repo'))
from iOpt.evolvent.evolvent import Evolvent
import numpy as np

def cells(N, m, lower, upper):
    e = Evolvent(lower, upper, N, m)
    K = 2 ** (N * m)
    out = []
    for i in range(K):
        x = float(F(2 * i + 1, 2 * K))          # midpoint of subinterval i (exact double for N*m <= 50)
        y = e.GetImage(x)
        out.append(tuple(float(v) for v in y))
    return e, out

def check(N, m, which, xs):
    bad = []
    lower = [0.0] * N; upper = [1.0] * N
    e, cs = cells(N, m, lower, upper)
    K = 2 ** (N * m)
    G = 2 ** m
    idx = []
    for i, c in enumerate(cs):
        j = []
        for v in c:
            q = F(v) * G - F(1, 2)
            if q.denominator != 1 or not (0 <= q < G):
                bad.append('C07: N=%d m=%d subinterval %d image %r is not a cell centre' % (N, m, i, c)); break
            j.append(int(q))
        idx.append(tuple(j))
    if not bad:
        if len(set(idx)) != K:
            bad.append('C07: N=%d m=%d images of the %d subintervals hit only %d distinct cells' % (N, m, K, len(set(idx))))
        last = tuple(float(v) for v in e.GetImage(1.0))
        if last != cs[-1]:
            bad.append('C07: N=%d m=%d image of x=1 %r is not the last cell %r' % (N, m, last, cs[-1]))
        # end points / interior points of subintervals map like the midpoint
        for i in (0, 1, K // 2, K - 2, K - 1):
            if 0 <= i < K:
                for x in (F(i, K), F(4 * i + 1, 4 * K), F(4 * i + 3, 4 * K), F(i + 1, K) - F(1, 2 ** 52)):
                    if 0 <= x < 1 and int(x * K) == i:
                        y = tuple(float(v) for v in e.GetImage(float(x)))
                        if y != cs[i]:
                            bad.append('C07: N=%d m=%d x=%s of subinterval %d maps to %r, midpoint maps to %r' % (N, m, x, i, y, cs[i]))
    for x in xs:
        xe = F(float(x))
        if 0 <= xe < 1 and not bad:
            i = int(xe * K)
            y = tuple(float(v) for v in e.GetImage(float(x)))
            if y != cs[i]:
                bad.append('C07: N=%d m=%d x=%s of subinterval %d maps to %r, midpoint maps to %r' % (N, m, xe, i, y, cs[i]))
    if not bad and 'C08' in which:
        for i in range(K - 1):
            dif = [abs(a - b) for a, b in zip(idx[i], idx[i + 1])]
            if sorted(dif) != [0] * (N - 1) + [1]:
                bad.append('C08: N=%d m=%d cells of subintervals %d,%d are not face-adjacent: %r %r' % (N, m, i, i + 1, idx[i], idx[i + 1])); break
    if not bad and 'C09' in which:
        for i in range(K):
            x = e.GetInverseImage(np.array(cs[i]))
            if F(float(x)) != F(i, K):
                bad.append('C09: N=%d m=%d inverse(image(subinterval %d)) = %r, expected %s' % (N, m, i, x, F(i, K))); break
            x2 = e.GetPreimages(np.array(cs[i]))
            if F(float(x2)) != F(i, K):
                bad.append('C09: N=%d m=%d GetPreimages(image(subinterval %d)) = %r, expected %s' % (N, m, i, x2, F(i, K))); break
            # a non-centre point of the same cell
            off = [(0.3 if (i + k) % 2 else -0.45) / G for k in range(N)]
            p = np.array([c + o for c, o in zip(cs[i], off)])
            x3 = e.GetInverseImage(p)
            if F(float(x3)) != F(i, K):
                bad.append('C09: N=%d m=%d inverse of off-centre point %r of cell %d = %r, expected %s' % (N, m, list(p), i, x3, F(i, K))); break
    return bad

def nesting(N, m):
    bad = []
    lower = [0.0] * N; upper = [1.0] * N
    e1, c1 = cells(N, m, lower, upper)
    e2, c2 = cells(N, m + 1, lower, upper)
    G = 2 ** m
    for i2, c in enumerate(c2):
        i = i2 // (2 ** N)
        if any(abs(F(a) - F(b)) > F(1, 2 * G) for a, b in zip(c, c1[i])):
            bad.append('C08: N=%d density-%d cell %r of sub-subinterval %d is not inside the density-%d cell %r of subinterval %d' % (N, m + 1, c, i2, m, c1[i], i)); break
    return bad

if __name__ == '__main__':
    ARGS = __ARGS__
    N = int(ARGS[0]); mmax = int(ARGS[1]); which = ARGS[2]
    xs = [F(a) for a in ARGS[3:]]
    bad = []
    for m in range(1, mmax + 1):
        bad += check(N, m, which, xs)
        if 'C08' in which and N * (m + 1) <= N * mmax:
            bad += nesting(N, m)
        if bad: break
    if not bad and 'C09' in which:
        # the deepest admissible densities (N*m close to 50), a handful of subintervals each (no enumeration)
        for (n_, m_) in ((2, 25), (2, 24), (3, 16), (5, 10), (4, 12)):
            e = Evolvent([0.0] * n_, [1.0] * n_, n_, m_)
            K = 2 ** (n_ * m_)
            for i in (1, 3, K // 3 | 1, K // 2 + 1, K - 1, K - 2, 12345 | 1):
                i = i % K
                y = e.GetImage(float(F(2 * i + 1, 2 * K)))
                for q in (e.GetInverseImage(np.array(y)), e.GetPreimages(np.array(y))):
                    if F(float(q)) != F(i, K):
                        bad.append('C09: N=%d m=%d inverse(image(subinterval %d)) = %r, expected %s' % (n_, m_, i, q, F(i, K))); break
                if bad: break
            if bad: break
    for b in bad[:10]: print('REPRODUCED', b)
    sys.exit(1 if bad else 0)
'''


def oracle_replay(run, tag, N, mmax, which, xs=()):
    """Stand-alone native replay: exhaustive native check of the evolvent clauses for this N and m <= mmax."""
    script = NATIVE_ORACLE.replace('__ARGS__', repr([N, mmax, which] + [str(x) for x in xs]))
    return run.write_replay(tag, script)


POINT_REPLAY = r'''
"""Native point-wise replay (C07): points of different subintervals must map to different cells, points of the same
subinterval to the same cell; x = 1 belongs to the last subinterval."""
import sys, os
from fractions import Fraction as F
sys.path.insert(0, os.environ.get('IOPT_REPO', '/repo'))
from iOpt.evolvent.evolvent import Evolvent
N, m, xs = __ARGS__
e = Evolvent([0.0] * N, [1.0] * N, N, m)
K = 2 ** (N * m)
img = lambda v: [float(c) for c in e.GetImage(float(v))]
bad = 0
for s in xs:
    x = float(F(s)); xe = F(x)
    if not (0 <= xe < 1):
        continue
    i = int(xe * K)
    y = img(x)
    others = {j for j in (0, i - 1, i + 1, K - 2, K - 1) if 0 <= j < K and j != i}
    for j in sorted(others):
        for xo in (F(j, K), F(2 * j + 1, 2 * K)) + ((F(1),) if j == K - 1 else ()):
            if img(xo) == y:
                print('REPRODUCED C07: N=%d m=%d x=%r lies in subinterval %d but has the same image %r as x=%s of subinterval %d' % (N, m, x, i, y, xo, j))
                bad = 1
    for xo in (F(i, K), F(4 * i + 1, 4 * K), F(2 * i + 1, 2 * K)):
        if img(xo) != y:
            print('REPRODUCED C07: N=%d m=%d x=%r and x=%s lie in the same subinterval %d but map to %r and %r' % (N, m, x, xo, i, y, img(xo)))
            bad = 1
sys.exit(bad)
'''


def point_replay(run, tag, N, m, xs):
    return run.write_replay(tag, POINT_REPLAY.replace('__ARGS__', repr((N, m, [str(x) for x in xs]))))
