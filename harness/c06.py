"""C06 -- the search information is a faithful, ordered and complete record of the trials (DESIGN.md section 5, C06).

S    one real DoGlobalIteration(1) from an arbitrary invariant state (ABSTRACT): exactly one new item, linked between the ends of
     the interval it subdivides; both new intervals store (x - x_left)^(1/N); all other lengths, links, coordinates and values
     untouched; the new item stores the objective at its own point in its own value holder; its point is the evolvent image.
RUN  scenarios through the public interface (EXACT): after fresh runs / reachable prefixes + arbitrary values the traversal of
     Solver.searchData is 0 < ... < 1 strictly increasing with consistent links, GetCount = trials + 2, lengths, images
     (real evolvent, N = 1), values = completed evaluations (each exactly once), own value holders.  A second live Solver of
     another dimension exists and is iterated in between.  One scenario: the objective raises on the very first trial and
     the solver is resumed.
"""
import os
import sys

sys.path.insert(0, os.path.dirname(os.path.dirname(os.path.abspath(__file__))))
from harness import agp, agpnative as an, c02  # noqa: E402
from symex import report  # noqa: E402

PID = 'C06'
WANT = ('C06', 'K1')


def run_job(cfg, label):
    return agp.scenario_job(cfg, WANT, label=label)


def scenarios(run):
    quick = run.quick
    out = []
    base = {'overrides': ['before', 'iter', 'stop'], 'sibling': 'other'}
    for N in (1, 2):
        cfg = dict(base, N=N, r=2.5, seed=0, kpre=0, nsym=4, script=[('iter', 1), ('other', 1), ('iter', 2)], density=2 if N > 1 else None, tags=['fresh'])
        out.append((cfg, 'fresh N=%d: 3 iterations, all values symbolic, sibling solver in between' % N))
    seeds = [(run.seed * 3 + i) % 50 for i in range(3 if quick else 8)] + [3, 4]
    for sd in seeds:
        for kpre in ((2, 4) if quick else (2, 3, 4, 5, 6)):
            for r in ((2.5,) if quick else (2.5, 1.3)):
                cfg = dict(base, N=1, r=r, seed=sd, kpre=kpre, nsym=3, script=[('iter', kpre), ('other', 2), ('iter', 2)], tags=['prefix'])
                out.append((cfg, 'prefix f#%d (%d concrete values) r=%s + 2 arbitrary values' % (sd, kpre, r)))
    for sd in seeds[:3]:
        cfg = dict(base, N=1, r=2.5, seed=sd, kpre=2, nsym=3, script=[('solve',)], iters_limit=5, eps='sym', tags=['stopped-by-accuracy'])
        out.append((cfg, 'Solve stopped by a symbolic eps: prefix f#%d (2 concrete values) + arbitrary values' % sd))
    # a Problem whose Calculate returns a NEW value holder instead of filling the supplied one (the abstract signature allows it)
    for sd in seeds[:2]:
        cfg = dict(base, N=1, r=2.5, seed=sd, kpre=2, nsym=3, script=[('iter', 4)], new_holder=True, tags=['new-value-holder'])
        out.append((cfg, 'Calculate returns a new value holder: prefix f#%d (2 concrete values) + arbitrary values' % sd))
    # the documented (so far ignored) startPoint parameter is supplied: the record must still hold evolvent images (2-D, concrete run)
    cfg = dict(base, N=2, r=2.5, seed=seeds[0], kpre=6, nsym=1, script=[('iter', 6)], density=3, start_point=[0.3, 2.1], tags=['start-point'])
    out.append((cfg, 'N=2 density 3 with SolverParameters.startPoint given: 6 trials of a concrete run'))
    # a very narrow box: distinct trial points agree to many decimal places
    for sd in seeds[:2]:
        cfg = dict(base, N=1, r=2.5, seed=sd, kpre=5, nsym=2, script=[('iter', 6)], box=([2e-5], [3e-5]), tags=['narrow-box'])
        out.append((cfg, 'narrow box [2e-5, 3e-5]: prefix f#%d (5 concrete values) + 1 arbitrary value' % sd))
        cfg = dict(base, N=2, r=2.5, seed=sd, kpre=5, nsym=1, script=[('iter', 5)], box=([2e-5, 1e-4], [3e-5, 6e-4]), density=3, tags=['narrow-box'])
        out.append((cfg, 'narrow 2-D box: prefix f#%d (5 concrete values)' % sd))
    # the very first trial fails, the solver is resumed
    cfg = dict(base, N=1, r=2.5, seed=seeds[0], kpre=0, nsym=4, script=[('solve',), ('iter', 3)], iters_limit=50, fail=(0, 'RuntimeError(msg)'),
               tags=['first-trial-fails'])
    out.append((cfg, 'objective raises on the first trial inside Solve, then 3 iterations'))
    cfg = dict(base, N=2, r=2.5, seed=seeds[0], kpre=0, nsym=4, script=[('solve',), ('solve',)], iters_limit=3, density=2, fail=(0, 'ValueError()'),
               tags=['first-trial-fails'])
    out.append((cfg, 'N=2: objective raises on the first trial inside Solve, then Solve again'))
    return out


def main():
    run = report.Runner(PID, design_ref='5/C06')
    agp.describe(run)
    agp.describe_stubs(run)
    quick = run.quick
    plan = [(1, 1), (1, 2), (2, 2)] if quick else [(1, 1), (1, 2), (2, 2), (3, 2), (1, 3), (2, 3)]
    jobs = agp.step_jobs(WANT, plan)
    for N in (1, 2, 3):
        for ends in ('unevaluated', 'evaluated'):
            jobs.append((c02.renew_job, (N, ends)))        # lengths and links written by the real RenewSearchData, all inputs, exact arithmetic
    for cfg, label in scenarios(run):
        jobs.append((run_job, (cfg, label)))
    run.bound(step='%s (N, evaluated trials), all coordinates and values symbolic' % plan,
              scenarios='fresh N in {1,2} (3 symbolic values); prefixes of 2..6 concrete values + 2 arbitrary values, N = 1')
    run.not_covered('the in-place overwrite of the best item by DoLocalRefinement (after the last iteration; judged under C05); floats; '
                    'IMAGE clause for N >= 2 in scenario runs (the stored point is the real GetImage result by construction of the step; C07)')
    run.parallel(jobs)
    agp.confirm(run, WANT)
    run.finish('traversal strictly increasing from 0 to 1 with consistent links and count; stored lengths, images and values are those of the '
               'completed evaluations; own value holders',
               vacuity=['recalc-pending', 'recalc-not-pending', 'interior-interval', 'left-boundary-interval', 'right-boundary-interval',
                        'fresh', 'prefix', 'first-trial-fails', 'narrow-box', 'stopped-by-accuracy', 'new-value-holder', 'start-point'])


if __name__ == '__main__':
    main()
