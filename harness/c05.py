"""C05 -- all evaluations and the result stay inside the box; refinement never worsens (DESIGN.md section 5, C05).

BOX   the real Evolvent.GetImage with SYMBOLIC bounds lower < upper (N = 1..3 quick, ..4 thorough; all paths of a coarse curve):
      the image lies inside [lower, upper] in every coordinate (the same obligation as C07's box clause, stated here for
      the points the solver evaluates: every trial is GetImage(x) with 0 < x < 1 by C02).
RUN   scenarios through the public interface (EXACT) with concrete non-symmetric boxes: every point passed to the objective
      during the global phase is inside the box (arbitrary objective values steer the search).
REF   the real Process.DoLocalRefinement / Solve(refineSolution=True) with scipy.optimize.minimize replaced by a contract stub
      (evaluates x0 and up to 2 arbitrary points, inside `bounds` iff bounds are passed; arbitrary `success` flag): every evaluation and the returned point
      inside the box, returned value <= best global value, reported value = objective at the reported point, local trial count.
      Whether real scipy honours `bounds` is the stub's contract, tied to scipy 1.x only by the native replays.
"""
import os
import sys

import z3

sys.path.insert(0, os.path.dirname(os.path.dirname(os.path.abspath(__file__))))
from harness import agp, evo, agpnative as an  # noqa: E402
from symex import core, report, shims  # noqa: E402
from symex.core import Explorer  # noqa: E402

PID = 'C05'
WANT = ('C05',)


def box_job(N, m):
    st = agp.setup()

    def h(ex):
        lo, up = [], []
        for c in range(N):
            a, b = ex.real('lower%d' % c), ex.real('upper%d' % c)
            ex.assume(a.t < b.t)
            lo.append(a)
            up.append(b)
        x = ex.real('x')
        ex.assume(z3.And(x.t >= 0, x.t <= 1))
        ev = evo.mk_evolvent(N, m, shims.SArr(lo, 'f'), shims.SArr(up, 'f'))
        y = ev.GetImage(x)
        for c in range(N):
            ex.prove(z3.And(evo.T(lo[c]) <= evo.T(y[c]), evo.T(y[c]) <= evo.T(up[c])),
                     'C05 BOX: the evolvent image lies inside [lower, upper] for arbitrary bounds', {'N': N, 'm': m, 'c': c})
        ex.tag('box-N%d' % N)
    ex = Explorer(mode='EXACT', name='BOX N=%d m=%d' % (N, m), timeout_ms=60000)
    ex.explore(h, sample_every=7)
    return agp.summary(ex, 'GetImage with symbolic bounds N=%d m=%d' % (N, m), {'N': N, 'm': m}, {'level': 'box', 'N': N, 'm': m})


def run_job(cfg, label):
    return agp.scenario_job(cfg, WANT, label=label)


def scenarios(run):
    quick = run.quick
    out = []
    base = {'overrides': ['before', 'iter', 'stop'], 'sibling': 'other'}
    seeds = [(run.seed * 3 + i) % 50 for i in range(2 if quick else 6)] + [2]
    for sd in seeds:
        for kpre in ((1, 3) if quick else (1, 2, 3, 4, 5)):
            cfg = dict(base, N=1, r=2.5, seed=sd, kpre=kpre, nsym=3, script=[('iter', kpre + 2)], tags=['global-phase'])
            out.append((cfg, 'global phase N=1: f#%d, %d concrete + 2 arbitrary values' % (sd, kpre)))
            # refinement after the global phase (Solve with refineSolution and an explicit DoLocalRefinement)
            cfg = dict(base, N=1, r=2.5, seed=sd, kpre=kpre, nsym=2, script=[('solve',)], iters_limit=kpre + 1, refine=True, nm_points=2, nm_success='sym',
                       tags=['refine-in-solve'])
            out.append((cfg, 'Solve(refineSolution=True) N=1: f#%d, %d concrete + 1 arbitrary value, minimize stub with 2 arbitrary points' % (sd, kpre)))
    # optimum on the boundary of the box: the global phase ends next to an upper / lower face before the refinement starts
    for sd in (5, 6, 12):
        for kpre in ((7,) if quick else (5, 7, 9)):
            cfg = dict(base, N=1, r=2.5, seed=sd, kpre=kpre, nsym=2, script=[('solve',)], iters_limit=kpre + 1, refine=True, nm_points=2,
                       tags=['refine-near-a-face'])
            out.append((cfg, 'Solve(refineSolution=True) N=1 on a monotone objective f#%d: %d concrete + 1 arbitrary value' % (sd, kpre)))
        cfg = dict(base, N=2, r=2.5, seed=sd, kpre=6, nsym=1, script=[('iter', 6), ('refine', 5)], density=3, nm_points=2, tags=['refine-near-a-face'])
        out.append((cfg, 'DoLocalRefinement N=2 (density 3) on a monotone objective f#%d after 6 concrete trials' % sd))
    for sd in seeds[:1 if quick else 3]:
        cfg = dict(base, N=2, r=2.5, seed=sd, kpre=1, nsym=3, script=[('iter', 3)], density=2, tags=['global-phase-2d'])
        out.append((cfg, 'global phase N=2 (density 2): f#%d, 1 concrete + 2 arbitrary values' % sd))
        cfg = dict(base, N=2, r=2.5, seed=sd, kpre=2, nsym=1, script=[('iter', 2), ('refine', 5)], density=2, nm_points=2, tags=['refine-explicit'])
        out.append((cfg, 'DoLocalRefinement(5) N=2 after 2 concrete trials, minimize stub with 2 arbitrary points'))
    return out


def main():
    run = report.Runner(PID, design_ref='5/C05')
    agp.describe(run, what=('process', 'solver'))
    evo.describe(run)
    agp.describe_stubs(run)
    run.stub('scipy.optimize.minimize -> MinimizeStub: evaluates fun at x0 and at <= 2 arbitrary points, inside `bounds` iff bounds are passed '
             '(otherwise anywhere in [-1000,1000]^N); returns the evaluated point of smallest value; nfev = evaluations.  Real scipy in replays.')
    quick = run.quick
    jobs = []
    for (N, m) in ([(1, 2), (2, 2), (3, 1)] if quick else [(1, 3), (2, 2), (2, 3), (3, 2), (4, 1)]):
        jobs.append((box_job, (N, m)))
    for cfg, label in scenarios(run):
        jobs.append((run_job, (cfg, label)))
    run.bound(box='symbolic bounds lower < upper, x in [0,1], all paths of GetImage at the listed (N, m)',
              scenarios='N=1 prefixes of 1..5 concrete values + arbitrary values; N=2 density 2; refinement via the contract stub with <= 2 arbitrary points')
    run.not_covered('the behaviour of the real Nelder-Mead implementation (compiled/numpy code: contract stub; replays use real scipy); '
                    'N >= 3 in whole-run scenarios (box clause covers the image for N <= 4); float rounding of the affine cube-to-box map')
    run.parallel(jobs)
    # box-level candidates: native confirmation with the model's bounds
    for r, c in list(run.candidates()):
        if c['detail'].get('level') == 'box':
            d = c['detail']
            script = BOX_REPLAY % {'N': d['N'], 'm': d['m'], 'model': c['model']}
            rp = run.write_replay('box', script)
            ok, out = run.run_replay(rp)
            if ok:
                run.confirmed('C05:box:N%d' % d['N'], '%s: %s' % (c['label'], (out or '').strip()[-300:]), rp)
            else:
                run.unconfirmed(c['label'], (out or '')[-300:])
            for rr in run.jobs:
                rr['cex'] = [x for x in rr.get('cex', []) if x['detail'].get('level') != 'box']
            break
    for r_ in run.jobs:
        for c_ in r_.get('cex', []):
            c_['detail']['native_extra_refine'] = 200      # the native replay lets the real Nelder-Mead run long enough to show the escape
    agp.confirm(run, WANT)
    run.finish('every evaluated point and the returned point lie inside the box; refinement (under the minimize contract) never worsens and '
               'reports the objective at the returned point',
               vacuity=['box-N1', 'box-N2', 'global-phase', 'refine-in-solve', 'refine-explicit', 'global-phase-2d', 'refine-near-a-face'])


BOX_REPLAY = r'''
import sys, os
from fractions import Fraction as F
sys.path.insert(0, os.environ.get('IOPT_REPO', '/repo'))
from iOpt.evolvent.evolvent import Evolvent
N, m, model = %(N)d, %(m)d, %(model)r
g = lambda k, d: float(F(model[k].replace('?', ''))) if k in model else d
lo = [g('lower%%d' %% c, 0.0) for c in range(N)]; up = [g('upper%%d' %% c, 1.0) for c in range(N)]
e = Evolvent(lo, up, N, m)
bad = 0
K = 2 ** (N * m)
for i in range(K + 1):
    x = min(1.0, (i + 0.5) / K) if i < K else 1.0
    y = e.GetImage(x)
    for c in range(N):
        w = up[c] - lo[c]
        if not (lo[c] - 1e-9 * w <= y[c] <= up[c] + 1e-9 * w):
            print('REPRODUCED C05 BOX: N=%%d m=%%d bounds %%r %%r: image of x=%%r is %%r' %% (N, m, lo, up, x, list(y))); bad = 1; break
    if bad: break
sys.exit(bad)
'''


if __name__ == '__main__':
    main()
