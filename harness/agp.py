"""Common machinery of the method-level checks (C01-C06, C11-C13, C16, C20): symbolic objectives, fresh bounded runs of a
real Solver, and one real step from an arbitrary state satisfying the representation invariant (DESIGN.md section 5)."""
import os
import sys

import z3

sys.path.insert(0, os.path.dirname(os.path.dirname(os.path.abspath(__file__))))
from harness import evo, agpnative as an  # noqa: E402
from symex import core, shims, report  # noqa: E402
from symex.core import Explorer, Sym, SymBool, HarnessError  # noqa: E402

T = evo.T
_ST = {}
PRINTS = []


def _rec_print(*a, **k):
    PRINTS.append(' '.join(str(x) for x in a))


def setup():
    if _ST:
        return _ST
    st = evo.setup()
    mods = an.load()
    # stdout of the library is captured (C03/C16 read it); nothing else is replaced in method / process / search_data
    for m in (mods.method, mods.process, mods.sd):
        shims.install(m, print=_rec_print)
        if hasattr(m, 'math'):          # not used on the pinned tree; a change that starts using it is executed with the exact shim
            shims.install(m, math=st['ms'])
    import iOpt.output_system.console.console_output as co
    shims.install(co, print=_rec_print)
    _ST.update(mods=mods, evo=st, FnProblem=an.problem_class(mods))
    return _ST


def describe(run, what=('method', 'process', 'search_data', 'solver')):
    st = setup()
    mods = st['mods']
    M, P, S = mods.method.Method, mods.process.Process, mods.sd
    if 'method' in what:
        for n in ('FirstIteration', 'CheckStopCondition', 'RecalcAllCharacteristics', 'CalculateNextPointCoordinate',
                  'CalculateIterationPoint', 'CalculateFunctionals', 'CalculateM', 'CalculateGlobalR', 'RenewSearchData',
                  'UpdateOptimum', 'FinalizeIteration', 'CalculateDelta'):
            if hasattr(M, n):
                run.encode(getattr(M, n), 'iOpt.method.method.Method.' + n)
    if 'process' in what:
        for n in ('Solve', 'DoGlobalIteration', 'DoLocalRefinement', 'GetResults', 'problemCalculate'):
            if hasattr(P, n):
                run.encode(getattr(P, n), 'iOpt.method.process.Process.' + n)
    if 'search_data' in what:
        for cn in ('SearchDataItem', 'CharacteristicsQueue', 'SearchData'):
            c = getattr(S, cn)
            for n, f in vars(c).items():
                if callable(f) and (not n.startswith('__') or n in ('__init__', '__iter__', '__next__', '__lt__')):
                    run.encode(f, 'iOpt.method.search_data.%s.%s' % (cn, n))
    if 'solver' in what:
        for n in ('__init__', 'Solve', 'DoGlobalIteration', 'GetResults', 'AddListener', 'DoLocalRefinement'):
            run.encode(getattr(mods.solver.Solver, n), 'iOpt.solver.Solver.' + n)
        run.encode(mods.task.OptimizationTask.Calculate, 'iOpt.method.optim_task.OptimizationTask.Calculate')
        run.encode(mods.solution.Solution.__init__, 'iOpt.solution.Solution.__init__')
    run.stub('user objective Problem.Calculate -> arbitrary total function of the point: a fresh real per evaluation with '
             'functional-consistency constraints (same point => same value) against every earlier evaluation')
    run.stub('print inside iOpt.method.method / process / search_data -> recorded, not written')
    run.stub('depq.DEPQ, copy.deepcopy, collections.deque, threading.Lock: NOT stubbed, executed for real')


class Objective:
    """An arbitrary function of the point (Ackermann encoding); optionally raises on a chosen evaluation index."""

    def __init__(self, ex, name='z', fail_at=None, exc=None, shared=None):
        self.ex = ex
        self.name = name
        self.calls = shared.calls if shared is not None else []
        self.nsym = shared.nsym if shared is not None else [0]
        self.fail_at = fail_at
        self.exc = exc
        self.n = 0

    def __call__(self, ys, k):
        self.n += 1
        if self.fail_at is not None and k == self.fail_at:
            raise self.exc
        terms = [T(v) for v in ys]
        for (t2, z2) in self.calls:     # syntactically the same point: the same value, no new symbol
            if len(t2) == len(terms) and all(a.get_id() == b.get_id() for a, b in zip(terms, t2)):
                return z2
        z = self.ex.real('%s%d' % (self.name, self.nsym[0]))
        self.nsym[0] += 1
        for (t2, z2) in self.calls:
            if len(t2) == len(terms):
                same = z3.And(*[a == b for a, b in zip(terms, t2)])
                self.ex.assume_def(z3.Implies(same, z.t == z2.t))
        self.calls.append((terms, z))
        return z


class EvolventStub:
    """Stands for Evolvent.GetImage in method-level checks with N >= 2: an arbitrary map of [0,1] into the open box
    (fresh reals per call, same coordinate => same image).  The evolvent itself is the subject of C07-C09/C17."""

    def __init__(self, ex, N, lower, upper, density=10):
        self.ex, self.N, self.lower, self.upper = ex, N, lower, upper
        self.calls = []
        self.evolventDensity = density
        self.numberOfFloatVariables = N

    def GetImage(self, x):
        xt = T(x)
        k = len(self.calls)
        ys = []
        for c in range(self.N):
            y = self.ex.fresh_real('img%d_%d' % (k, c))
            self.ex.assume_def(z3.And(y > core.lift(self.lower[c]), y < core.lift(self.upper[c])))
            ys.append(y)
        for (x2, y2) in self.calls:
            self.ex.assume_def(z3.Implies(xt == x2, z3.And(*[a == b for a, b in zip(ys, y2)])))
        self.calls.append((xt, ys))
        return shims.SArr([Sym(y) for y in ys], 'f')


BOXES = {1: ([-1.5], [2.5]), 2: ([-0.5, 1.0], [1.5, 4.0]), 3: ([0.0, -1.0, 2.0], [1.0, 3.0, 2.5]),
         4: ([0.0, -1.0, 2.0, -3.0], [1.0, 3.0, 2.5, 3.0]), 5: ([0.0, -1.0, 2.0, -3.0, 1.0], [1.0, 3.0, 2.5, 3.0, 9.0])}


def prove_all(ex, clauses, only=None, detail=None):
    items = []
    for cl in clauses:
        if len(cl) == 3:
            label, kind, cond = cl
            d = dict(detail or {})
            d['kind'] = kind
        else:
            label, cond = cl
            d = detail
        if only is not None and not any(label.startswith(o) for o in only):
            continue
        items.append((cond, label, d))
    ex.prove_batch(items)


def new_solver(ex, N, objective, r, eps, iters_limit, density=None, refine=False, stub_evolvent=None, box=None):
    st = setup()
    mods = st['mods']
    lower, upper = box or BOXES[N]
    prob = st['FnProblem'](N, lower, upper, objective)
    s = an.make_solver(mods, prob, r, eps, iters_limit, density=density, refine=refine)
    if stub_evolvent is not None:
        s.evolvent = s.method.evolvent = s.process.evolvent = stub_evolvent
    return s, prob


def image_of(solver):
    def f(x):
        return list(solver.evolvent.GetImage(x))
    return f


def summary(ex, job, bounds=None, detail=None):
    s = ex.summary()
    s['job'] = job
    if bounds:
        s['bounds'] = bounds
    for c in s['cex']:
        c['detail'].update(detail or {})
    return s


class QueueStub:
    """Contract model of depq.DEPQ as iOpt uses it (unbounded max-priority queue): popfirst returns the entry with the
    largest priority, the earliest inserted one among equals (that is what DEPQ's insert/popfirst do).  It finds the
    maximum by a linear scan, so a symbolic run forks into at most n outcomes instead of the n! sort orders that DEPQ's
    sorted deque distinguishes.  The real DEPQ is executed in C19 and in the '+real-queue' jobs."""

    def __init__(self, iterable=None, maxlen=None):
        if iterable is not None:
            raise HarnessError('QueueStub: iterable argument is not modelled')
        self.maxlen = maxlen            # iOpt's Solver builds an unbounded queue (maxlen None); a bound is modelled like DEPQ's: the lowest entry is dropped
        self.data = []

    def insert(self, item, priority):
        self.data.append((item, priority))
        if self.maxlen is not None and len(self.data) > self.maxlen:
            wi = 0
            for i in range(1, len(self.data)):
                if self.data[i][1] <= self.data[wi][1]:
                    wi = i
            self.data.pop(wi)

    def popfirst(self):
        if not self.data:
            raise IndexError('DEPQ is already empty')
        bi = 0
        for i in range(1, len(self.data)):
            if self.data[i][1] > self.data[bi][1]:
                bi = i
        return self.data.pop(bi)

    def clear(self):
        self.data = []

    def is_empty(self):
        return len(self.data) == 0

    def __len__(self):
        return len(self.data)


def use_queue_stub(on=True):
    st = setup()
    sd = st['mods'].sd
    if on:
        if 'real_depq' not in st:
            st['real_depq'] = sd.DEPQ
        sd.DEPQ = QueueStub
    elif 'real_depq' in st:
        sd.DEPQ = st['real_depq']


# ----------------------------------------------------------------------------------------------
# an arbitrary state satisfying the representation invariant (DESIGN.md section 5, `Inv`)
def inv_state(ex, N, k, r=None, eps=None, iters_limit=None, real_queue=False, refine=False, listener=None,
              recalc=None, md_inf=None, best=None, fail=None):
    """Real Solver with k evaluated trials at symbolic coordinates / values, symbolic M, r, counters.
    Returns (solver, problem, items, info)."""
    st = setup()
    mods = st['mods']
    use_queue_stub(not real_queue)
    obj = Objective(ex, fail_at=fail[0] if fail else None, exc=an.EXC_TYPES[fail[1]]() if fail else None)
    if r is None:
        r = ex.real('r')
        ex.assume(r.t > 1)
    lower, upper = BOXES[N]
    stub = EvolventStub(ex, N, lower, upper) if N >= 2 else None
    solver, prob = new_solver(ex, N, obj, r, 0.001 if eps is None else eps, 1000000 if iters_limit is None else iters_limit,
                              stub_evolvent=stub, refine=refine)
    if listener is not None:
        solver.AddListener(listener)
    xs = [ex.real('x%d' % i) for i in range(1, k + 1)]
    prev = 0
    for x in xs:
        ex.assume(z3.And(x.t > core.lift(prev), x.t < 1))
        prev = x
    img = solver.evolvent.GetImage
    pts = [img(0.0)] + [img(x) for x in xs] + [img(1.0)]
    zs = []
    for i in range(k):
        ys = list(pts[i + 1])
        prob.started.append(ys)
        z = obj(ys, i)
        prob.done.append((ys, z))
        zs.append(z)
    full = [0.0] + xs + [1.0]
    deltas = [an.holder(full[i] - full[i - 1], N) for i in range(1, len(full))]
    M = ex.real('M')
    ex.assume(M.t >= 1)
    for i in range(1, k):
        ex.assume(abs(zs[i] - zs[i - 1]) / deltas[i] <= M)
    if best is None:
        b = ex.int('best')
        bi = ex.concretize(b.t, 0, k - 1)
    else:
        bi = best
    for i in range(k):
        ex.assume(zs[bi] <= zs[i])
    if recalc is None:
        recalc = bool(ex.bool('recalc'))
    if md_inf is None:
        md_inf = bool(ex.bool('accuracy_is_inf'))
    if md_inf:
        md = an.INF
    else:
        md = ex.real('min_delta')
        ex.assume(md.t > 0)
    it = ex.int('iterations')
    tr = ex.int('trials')
    ex.assume(z3.And(it.t >= 1, tr.t >= 0))
    spec = dict(xs=xs, zs=zs, points=pts, deltas=deltas, M=M, best=bi, recalc=recalc, min_delta=md, iterations=it, trials=tr)
    items = an.populate(mods, solver, spec)
    info = dict(spec=spec, r=r, N=N, k=k, obj=obj, best=bi, recalc=recalc, md_inf=md_inf)
    return solver, prob, items, info


def step_job(N, k, want, real_queue=False, timeout_ms=30000, recalc=None, md_inf=None, best=None, exact=False):
    setup()
    mods = setup()['mods']

    def h(ex):
        solver, prob, items, info = inv_state(ex, N, k, real_queue=real_queue, recalc=recalc, md_inf=md_inf, best=best)
        pre = an.pre_snapshot(mods, solver, items, N)
        solver.DoGlobalIteration(1)
        cl = an.step_clauses(mods, solver, pre, want=want)
        new = solver.searchData.GetLastItem()
        t = [i for i in range(len(items)) if items[i] is new.GetRight()]
        ti = t[0] if t else -1
        ex.tag('recalc-pending' if info['recalc'] else 'recalc-not-pending')
        if ti == 1:
            ex.tag('left-boundary-interval')
        elif ti == len(items) - 1:
            ex.tag('right-boundary-interval')
        elif ti > 0:
            ex.tag('interior-interval')
        if solver.method.best is new:
            ex.tag('new-optimum')
        else:
            ex.tag('optimum-kept')
        if not isinstance(an.LT(pre['M'], solver.method.M[0]), bool):
            pass
        prove_all(ex, cl, only=want)
        return {'t': ti, 'k': k}
    if exact:
        ex = exact_explorer('STEP-EXACT N=%d k=%d' % (N, k), timeout_ms=timeout_ms)
    else:
        ex = Explorer(mode='ABSTRACT', name='STEP N=%d k=%d' % (N, k), timeout_ms=timeout_ms, wall_s=job_wall())
    ex.explore(h, sample_every=9)
    cfg = {'N': N, 'k': k, 'level': 'step', 'real_queue': real_queue, 'recalc': recalc, 'md_inf': md_inf, 'best': best}
    return summary(ex, 'one step from Inv%s: N=%d, %d evaluated trials, recalc=%s, accuracy_inf=%s, best=%s%s'
                   % (' (exact arithmetic)' if exact else '', N, k, recalc, md_inf, best, ', real DEPQ' if real_queue else ''), {'N': N, 'k': k}, cfg)


# ----------------------------------------------------------------------------------------------
# reachable prefix + symbolic suffix (EXACT, rational-function arithmetic, public interface only)
def exact_const(v):
    import fractions
    return Sym(z3.RealVal(fractions.Fraction(float(v))))


class PrefixObjective:
    """evaluations 0..kpre-1: a concrete function (value lifted exactly); later evaluations: arbitrary (symbolic)"""

    def __init__(self, ex, seed, N, kpre, zrange=None, fail_at=None, exc=None, shared=None):
        self.f = an.prefix_function(seed, N)
        self.kpre = kpre
        self.sym = shared if shared is not None else Objective(ex)
        self.ex = ex
        self.zrange = zrange
        self.fail_at, self.exc = fail_at, exc

    def __call__(self, ys, idx):
        if self.fail_at is not None and idx == self.fail_at:
            raise self.exc
        if idx < self.kpre:
            v = exact_const(self.f([float(v) for v in ys]))
            self.sym.calls.append(([T(y) for y in ys], v))      # a later evaluation of the same point gives the same value
            return v
        z = self.sym(ys, idx)
        if self.zrange is not None and isinstance(z, Sym) and z.const() is None:
            self.ex.assume_def(z3.And(z.t >= -self.zrange, z.t <= self.zrange))
        return z


def job_wall():
    """wall-clock budget of one job (exceeding it makes the check inconclusive, never a pass)"""
    d = 1500 if os.environ.get('VERIF_TIER', '') == 'thorough' or '--tier thorough' in ' '.join(sys.argv) else 420
    return int(os.environ.get('VERIF_JOB_WALL', d))


def exact_explorer(name, timeout_ms=30000, wall_s=None, max_paths=200000):
    wall_s = wall_s or job_wall()
    ex = Explorer(mode='EXACT', logic='QF_NRA', name=name, timeout_ms=timeout_ms, ratfun=True, scratch=True, wall_s=wall_s,
                  max_paths=max_paths)
    ex.injects_interrupts = True
    return ex


def scenario_job(cfg, want, extra=None, label=None, timeout_ms=30000):
    """One scenario through the public interface: concrete prefix of `kpre` objective values, then arbitrary values.
    cfg is JSON-able and is replayed natively as is (agpnative.native_main, level 'scenario')."""
    st = setup()
    mods = st['mods']
    use_queue_stub(not cfg.get('real_queue', False))
    N = cfg['N']

    def h(ex):
        del PRINTS[:]
        if cfg.get('refine') or any(st_[0] == 'refine' for st_ in cfg['script']):
            use_minimize_stub(ex, cfg.get('nm_points', 2), cfg.get('nm_success') == 'sym')
        fail = cfg.get('fail')
        obj = PrefixObjective(ex, cfg.get('seed', 0), N, cfg.get('kpre', 0), zrange=cfg.get('zrange', 1000),
                              fail_at=fail[0] if fail else None, exc=an.EXC_TYPES[fail[1]]() if fail else None)
        rr = exact_const(cfg['r'])
        if cfg.get('eps') == 'sym':
            eps = ex.real('eps')
            ex.assume(z3.And(eps.t > 0, eps.t < 2))
        else:
            eps = cfg.get('eps', 1e-9)
        ctx = an.run_scenario(mods, cfg, obj, rr, eps, prints=PRINTS)
        cl = an.scenario_clauses(mods, ctx, want)
        if extra is not None:
            cl += extra(mods, ctx, want)
        ex.tag('scenario')
        if ctx['listener'] is not None:
            tr = an.trials_of(ctx['listener'])
            if any(isinstance(t[0], Sym) and t[0].const() is None for t in tr):
                ex.tag('trial-location-depends-on-symbolic-values')
        for t in cfg.get('tags', ()):
            ex.tag(t)
        prove_all(ex, cl, only=want)
        return [str(x)[:60] for x in cfg['script']]
    name = label or 'scenario N=%d r=%s f#%s kpre=%s %s' % (N, cfg['r'], cfg.get('seed'), cfg.get('kpre'), cfg['script'])
    ex = exact_explorer(name, timeout_ms=timeout_ms)
    ex.explore(h, sample_every=17)
    a = {'level': 'scenario', 'cfg': cfg, 'N': N}
    if extra is not None:
        a['extra_clauses'] = (extra.__module__ if extra.__module__ != '__main__' else 'harness.' + os.path.basename(sys.argv[0])[:-3], extra.__name__)
    return summary(ex, name, {k: v for k, v in cfg.items() if k in ('N', 'r', 'seed', 'kpre', 'nsym', 'script', 'iters_limit', 'eps', 'fail', 'sibling')}, a)


def replay_args(c, want):
    d = dict(c['detail'])
    a = {'want': list(want), 'model': c['model'], 'N': d.get('N', 1)}
    a.update({k: v for k, v in d.items() if k not in ('path', 'kind', 'exception')})
    return a


def confirm(run, want, kinds_needing_e2e=('I',)):
    """Replays every distinct candidate natively.  Kernel, scenario and 'P'-kind step clauses count when they reproduce;
    'I'-kind step clauses (preservation of the representation invariant) are lemmas: without an end-to-end witness in the
    same run they make the check inconclusive, never a violation."""
    groups = {}
    for r, c in run.candidates():
        d = c.get('detail', {})
        key = (d.get('level'), c['label'].split(':')[0], d.get('N'), d.get('which'))
        groups.setdefault(key, []).append(c)
    lemma_only = []
    for key, cs in sorted(groups.items(), key=lambda kv: str(kv[0])):
        level, head = key[0], key[1]
        kind = cs[0].get('detail', {}).get('kind')
        if level == 'step' and kind in kinds_needing_e2e:
            lemma_only.append((head, cs[0]))
            continue
        ok_any = False
        last = ''
        for c in cs[:4]:
            a = replay_args(c, want)
            rp = run.write_replay(head.replace(' ', '_')[:30], an.REPLAY_TEMPLATE % {'verif': report.VERIF, 'args': a})
            ok, out = run.run_replay(rp)
            last = (out or '').strip()[-400:]
            if ok:
                ok_any = True
                run.confirmed('%s:%s:%s' % (run.pid, level, head), '%s [%s level, N=%s]: %s' % (c['label'], level, key[2], last), rp)
                break
        if not ok_any:
            run.unconfirmed('%s (%s level)' % (cs[0]['label'], level), last)
    if lemma_only:
        if run.violations:
            run.extra['lemma_failures_explained_by_confirmed_violations'] = [h for h, _ in lemma_only]
        else:
            for h, c in lemma_only:
                run.unconfirmed('%s (invariant-preservation lemma of the step check; no end-to-end witness found)' % c['label'],
                                'model: %s' % c['model'])
    if run.violations:
        run.cex_unconfirmed = []


def step_jobs(want, plan, md_inf=(True,), exact_plan=((1, 1), (2, 1), (1, 2))):
    """ABSTRACT steps for every (N, k) of `plan`; additionally the same step in EXACT arithmetic (rational functions, fresh NRA solver) for the small
    states of `exact_plan`: their counterexamples are real-arithmetic models and replay natively as they are."""
    jobs = []
    for (N, k) in plan:
        for recalc in (False, True):
            for best in range(k):
                for mi in md_inf:
                    jobs.append((step_job, (N, k, want, False, 30000, recalc, mi, best)))
    for (N, k) in exact_plan:
        for recalc in (False, True):
            for best in range(k):
                jobs.append((step_job, (N, k, want, False, 60000, recalc, md_inf[-1], best, True)))
    return jobs


def describe_stubs(run):
    run.stub('Evolvent.GetImage for N >= 2 in the step checks -> arbitrary map into the open box (EvolventStub); real evolvent for N = 1 '
             'and in the scenario runs')
    run.stub('depq.DEPQ in the step checks and scenario runs -> QueueStub (unbounded max-priority queue, earliest-inserted among equals); '
             'the real DEPQ is executed in the "real_queue" scenarios and in C19')
    run.assume('floats are modelled as reals; concrete prefix values and r are lifted exactly')


def compose_job(cfg, want, clauses, label=None, timeout_ms=30000):
    """Several fresh solvers on the same objective (2-safety by self-composition); `clauses(mods, ctxs, want)` is a module-level
    function of harness.agpnative (or of a harness module) so that the native replay can call it too."""
    st = setup()
    mods = st['mods']
    use_queue_stub(not cfg.get('real_queue', False))
    N = cfg['N']

    def h(ex):
        del PRINTS[:]
        if cfg.get('refine') or any(st_[0] == 'refine' for v_ in cfg['variants'] for st_ in v_.get('script', [])):
            use_minimize_stub(ex, cfg.get('nm_points', 1))
        shared = Objective(ex)

        def factory():
            return PrefixObjective(ex, cfg.get('seed', 0), N, cfg.get('kpre', 0), zrange=cfg.get('zrange', 1000), shared=shared)
        rr = exact_const(cfg['r'])
        if cfg.get('eps') == 'sym':
            eps = ex.real('eps')
            ex.assume(z3.And(eps.t > 0, eps.t < 2))
        else:
            eps = cfg.get('eps', 1e-9)
        ctxs = an.compose_run(mods, cfg, factory, rr, eps, prints=PRINTS)
        cl = clauses(mods, ctxs, want)
        ex.tag('compose')
        for t in cfg.get('tags', ()):
            ex.tag(t)
        if any(isinstance(p[1], Sym) and p[1].const() is None for c in ctxs for p in c['prob'].done):
            ex.tag('symbolic-values')
        prove_all(ex, cl, only=want)
        return [len(c['prob'].done) for c in ctxs]
    name = label or 'compose N=%d r=%s f#%s kpre=%s' % (N, cfg['r'], cfg.get('seed'), cfg.get('kpre'))
    ex = exact_explorer(name, timeout_ms=timeout_ms)
    ex.explore(h, sample_every=17)
    a = {'level': 'compose', 'cfg': cfg, 'N': N, 'clauses': (clauses.__module__, clauses.__name__)}
    return summary(ex, name, {k: v for k, v in cfg.items() if k in ('N', 'r', 'seed', 'kpre', 'nsym', 'iters_limit', 'eps')}, a)


# ----------------------------------------------------------------------------------------------
# contract model of scipy.optimize.minimize(method='Nelder-Mead') for the refinement step (C05, C12, C13)
class _OptRes:
    def __init__(self, x, fun, nfev, success=True):
        self.x, self.fun, self.nfev, self.nit, self.success = x, fun, nfev, nfev, success
        self.status = 0 if success else 2
        self.message = 'stub'


class MinimizeStub:
    """scipy.optimize.minimize as Process.DoLocalRefinement uses it: evaluates `fun` at x0 and at `npoints` further ARBITRARY
    points -- inside `bounds` if and only if bounds are passed, otherwise anywhere in [-BIG, BIG]^N -- and returns the
    evaluated point with the smallest value (x0 if none is better), with nfev = number of evaluations and an ARBITRARY `success` flag.  Real scipy is used
    in the native replays."""
    BIG = 1000

    def __init__(self, ex, npoints=2, sym_success=False):
        self.ex = ex
        self.npoints = npoints
        self.sym_success = sym_success
        self.calls = []
        self.optimize = self

    def minimize(self, fun, x0=None, args=(), method=None, options=None, bounds=None, **kw):
        ex = self.ex
        N = len(x0)
        lb = list(bounds.lb) if bounds is not None else None
        ub = list(bounds.ub) if bounds is not None else None
        simplex = (options or {}).get('initial_simplex') if isinstance(options, dict) else None
        if simplex is not None:
            # scipy: "initial_simplex: if given, overrides x0" -- the vertices (clipped into `bounds`) are the starting evaluations, x0 is NOT evaluated
            starts = []
            for row in list(simplex):
                pt = []
                for c, v in enumerate(list(row)):
                    if lb is not None:
                        lo, hi = lb[c if len(lb) > 1 else 0], ub[c if len(ub) > 1 else 0]
                        v = lo if v < lo else (hi if v > hi else v)
                    pt.append(v)
                starts.append(pt)
        else:
            starts = [list(x0)]
        best_x = shims.SArr(list(starts[0]), 'f')
        best_v = fun(shims.SArr(list(starts[0]), 'f'))
        nfev = 1
        for pt in starts[1:]:
            val = fun(shims.SArr(list(pt), 'f'))
            nfev += 1
            if val < best_v:
                best_v, best_x = val, shims.SArr(list(pt), 'f')
        self.calls.append({'bounds': (lb, ub), 'x0': list(x0), 'options': options})
        for j in range(self.npoints):
            pt = []
            for c in range(N):
                v = ex.real('nm%d_%d' % (j, c))
                if lb is not None:
                    ex.assume(z3.And(v.t >= T(lb[c if len(lb) > 1 else 0]), v.t <= T(ub[c if len(ub) > 1 else 0])))
                else:
                    ex.assume(z3.And(v.t >= -self.BIG, v.t <= self.BIG))
                pt.append(v)
            val = fun(shims.SArr(pt, 'f'))
            nfev += 1
            if val < best_v:
                best_v, best_x = val, shims.SArr(pt, 'f')
        # Nelder-Mead may or may not report convergence within maxiter: an arbitrary Boolean
        ok = bool(ex.bool('nm_success_%d' % len(self.calls))) if self.sym_success else True
        return _OptRes(best_x, best_v, nfev, ok)


def use_minimize_stub(ex, npoints=2, sym_success=False):
    st = setup()
    stub = MinimizeStub(ex, npoints, sym_success)
    st['mods'].process.scipy = stub
    return stub
