"""C16 -- an objective failure is contained: Solve returns the best-so-far result (DESIGN.md section 5, C16).

S    from an arbitrary invariant state (ABSTRACT; so "the k-th evaluation" is arbitrary) the objective raises on the next
     evaluation (thorough: also on the one after) inside the real Process.Solve, for exception types Exception subclasses with
     and without arguments (incl. the arithmetic ones an objective really raises: ZeroDivisionError, OverflowError), KeyboardInterrupt, SystemExit, GeneratorExit and a user BaseException subclass: Solve returns,
     reported trials = completed evaluations, best = best completed trial with its own value, the record still satisfies
     C06's ordering / fidelity clauses and does not contain the failed point, the failure is printed.
RUN  scenarios through the public interface (EXACT): fresh solvers failing on evaluation 2 or 3 and reachable prefixes failing
     on a later evaluation, values symbolic.
"""
import os
import sys

sys.path.insert(0, os.path.dirname(os.path.dirname(os.path.abspath(__file__))))
from harness import agp, agpnative as an  # noqa: E402
from symex import report  # noqa: E402
from symex.core import Explorer  # noqa: E402
import z3  # noqa: E402

PID = 'C16'
WANT = ('C16',)
EXCS = ['RuntimeError(msg)', 'ValueError()', 'KeyboardInterrupt()', 'ZeroDivisionError(msg)', 'StopIteration()', 'SystemExit(3)', 'GeneratorExit()', 'UserBaseException()',
        'AssertionError()', 'OverflowError(msg)']


def fault_step_job(N, k, recalc, exc, later=0):
    st = agp.setup()
    mods = st['mods']

    def h(ex):
        del agp.PRINTS[:]
        solver, prob, items, info = agp.inv_state(ex, N, k, recalc=recalc, md_inf=True, best=None if k > 1 else 0, fail=(k + later, exc), iters_limit=1000)
        # the run is not over yet, and the counters are those of a run made of global iterations only (Inv)
        ex.assume(z3.And(info['spec']['iterations'].t == 999 - later))      # exactly the failing iteration is left in the budget: a run that wrongly goes on ends at once
        ex.assume(info['spec']['trials'].t == k)
        n0 = len(prob.started)
        sol = solver.Solve()
        ctx = {'solver': solver, 'prob': prob, 'N': N, 'returned': [('solve', sol, an.snapshot_solution(sol), n0, len(prob.started))],
               'prints': list(agp.PRINTS), 'lower': agp.BOXES[N][0], 'upper': agp.BOXES[N][1], 'stub_evolvent': N >= 2}
        ex.tag('fault-on-next-evaluation' if later == 0 else 'fault-one-evaluation-later')
        ex.tag('exc-' + exc)
        agp.prove_all(ex, an.fault_clauses(mods, ctx, WANT), only=WANT, detail={'kind': 'P'})
        return None
    ex = Explorer(mode='ABSTRACT', name='FAULT N=%d k=%d %s' % (N, k, exc), timeout_ms=30000)
    ex.injects_interrupts = True
    ex.explore(h, sample_every=9)
    return agp.summary(ex, 'objective raises %s on evaluation k+%d from Inv: N=%d, k=%d completed, recalc=%s' % (exc, later + 1, N, k, recalc),
                       {'N': N, 'k': k}, {'N': N, 'k': k, 'level': 'step', 'recalc': recalc, 'md_inf': True, 'best': None,
                                          'fault': (k + later, exc)})


def run_job(cfg, label):
    return agp.scenario_job(cfg, WANT, label=label)


def scenarios(run):
    quick = run.quick
    out = []
    base = {'overrides': ['before', 'iter', 'stop'], 'sibling': 'other'}
    excs = EXCS if not quick else EXCS[:6]
    for i, exc in enumerate(excs):
        for N in (1, 2):
            for fk in (1, 2):
                cfg = dict(base, N=N, r=2.5, seed=0, kpre=0, nsym=4, script=[('solve',)], iters_limit=fk + 2, density=2 if N > 1 else None,
                           fail=(fk, exc), tags=['fresh-fault-%d' % (fk + 1)])
                out.append((cfg, 'fresh N=%d: %s on evaluation %d, all values symbolic' % (N, exc, fk + 1)))
    seeds = [(run.seed * 3 + i) % 50 for i in range(2 if quick else 6)] + [3]
    for j, sd in enumerate(seeds):
        for kpre in ((3,) if quick else (2, 3, 4, 5)):
            exc = EXCS[(j + kpre) % len(EXCS)]
            cfg = dict(base, N=1, r=2.5, seed=sd, kpre=kpre, nsym=3, script=[('iter', kpre), ('solve',)], iters_limit=kpre + 3, fail=(kpre + 1, exc),
                       tags=['prefix-fault'])
            out.append((cfg, 'prefix f#%d (%d concrete values), then Solve with %s on evaluation %d' % (sd, kpre, exc, kpre + 2)))
    return out


def main():
    run = report.Runner(PID, design_ref='5/C16')
    agp.describe(run)
    agp.describe_stubs(run)
    quick = run.quick
    jobs = []
    plan = [(1, 1), (1, 2)] if quick else [(1, 1), (1, 2), (2, 2), (1, 3)]
    for (N, k) in plan:
        for recalc in (False, True):
            for exc in (EXCS[:3] if quick and k > 1 else EXCS):
                jobs.append((fault_step_job, (N, k, recalc, exc, 0)))
    if not quick:
        for exc in EXCS[:3]:
            jobs.append((fault_step_job, (1, 1, False, exc, 1)))
    for cfg, label in scenarios(run):
        jobs.append((run_job, (cfg, label)))
    run.bound(step='%s (N, completed trials), one fault on the next evaluation (thorough: or the one after)' % plan, exception_types=EXCS,
              scenarios='fresh N in {1,2} failing on evaluation 2 or 3; prefixes of 2..5 concrete values failing two evaluations later')
    run.not_covered('more than one failure per run; failure on the very first evaluation (k >= 2 in the statement; the resumed-first-trial '
                    'scenario is in C06); exceptions raised by listeners')
    run.parallel(jobs)
    agp.confirm(run, WANT)
    run.finish('Solve returns; trial count, best point and value are those of the completed trials; the record is ordered, faithful and '
               'does not contain the failed point; the failure is printed',
               vacuity=['fault-on-next-evaluation', 'exc-KeyboardInterrupt()', 'exc-ValueError()', 'fresh-fault-2', 'fresh-fault-3', 'prefix-fault'])


if __name__ == '__main__':
    main()
