"""C12 -- Solver instances are isolated from one another (DESIGN.md section 5, C12).

Self-composition: a main real Solver on an objective made of a reachable concrete prefix + arbitrary values is run (i) alone
and (ii..) with ANOTHER live Solver (same dimension and density but a different box, or another dimension; its own concrete
objective) created alongside and iterated in between the main solver's steps under several schedules (lock-step, blocks,
other-first, other solves to the end).  Everything happens in one symbolic run, so the solver decides for all values:
same trial sequence and search information as alone, the Solution kept from an earlier Solve still reports its own optimum
after the other solver ran, the results coincide; and the other solver makes the trials it makes when it runs alone.
"""
import os
import sys

sys.path.insert(0, os.path.dirname(os.path.dirname(os.path.abspath(__file__))))
from harness import agp, agpnative as an  # noqa: E402
from symex import report  # noqa: E402

PID = 'C12'
WANT = ('C12',)


def job(cfg, label):
    return agp.compose_job(cfg, WANT, an.isolation_clauses, label=label)


def schedules(K):
    """scripts for the main solver (K iterations then Solve) with the other solver interleaved in different ways"""
    lock = []
    for i in range(K):
        lock += [('iter', 1), ('other', 1)]
    return {
        'lock-step': (lock + [('solve',), ('other', 2)], [('other', 1)] * K + [('other', 2)]),
        'other-first': ([('other', 3), ('iter', K), ('other', 1), ('solve',), ('other', 1)], [('other', 3), ('other', 1), ('other', 1)]),
        'blocks': ([('iter', 1), ('other', 2), ('iter', K - 1), ('solve',), ('other-solve',)], [('other', 2), ('other-solve',)]),
    }


def defaults_job():
    """Ground part: solvers built with the DEFAULT SolverParameters (one default object shared by every such Solver) next to a solver of a
    high-dimensional problem; the same concrete run before and after must coincide."""
    st = agp.setup()
    mods = st['mods']
    agp.use_queue_stub(False)

    def h(ex):
        P = an.problem_class(mods)

        def run2(n_iter=6):
            f = an.prefix_function(1, 2)
            p = P(2, *an.NBOXES[2], lambda ys, i: f([float(y) for y in ys]))
            s = mods.solver.Solver(p)                      # default parameters
            s.DoGlobalIteration(n_iter)
            return [(list(map(float, pt)), float(v)) for pt, v in p.done], s.evolvent.evolventDensity, s.parameters
        before, dens0, par0 = run2()
        for N in (6, 7):
            f6 = an.prefix_function(2, N)
            p6 = P(N, [-1.0] * N, [1.0 + 0.1 * c for c in range(N)], lambda ys, i: f6([float(y) for y in ys]))
            s6 = mods.solver.Solver(p6)                    # default parameters again: the same default object
            s6.DoGlobalIteration(2)
        after, dens1, par1 = run2()
        ex.prove(before == after and dens0 == dens1, 'C12 DEFAULTS: a solver built with the default parameters is not affected by other solvers built with them',
                 {'level': 'defaults', 'density_before': dens0, 'density_after': dens1})
        ex.tag('default-parameters')
    ex = agp.exact_explorer('DEFAULTS')
    ex.explore(h)
    return agp.summary(ex, 'default SolverParameters shared by solvers of 2, 6 and 7 variables (ground)', None, {'level': 'defaults', 'N': 2})


DEFAULTS_REPLAY = r'''
import os, sys
sys.path.insert(0, os.environ.get('IOPT_REPO', '/repo'))
sys.path.insert(1, %(verif)r)
from harness import agpnative as an
mods = an.load(); P = an.problem_class(mods)
def run2():
    f = an.prefix_function(1, 2)
    p = P(2, *an.NBOXES[2], lambda ys, i: f([float(y) for y in ys]))
    s = mods.solver.Solver(p); s.DoGlobalIteration(6)
    return [(list(map(float, pt)), float(v)) for pt, v in p.done], s.evolvent.evolventDensity
b, d0 = run2()
for N in (6, 7):
    f6 = an.prefix_function(2, N)
    s6 = mods.solver.Solver(P(N, [-1.0] * N, [1.0 + 0.1 * c for c in range(N)], lambda ys, i: f6([float(y) for y in ys]))); s6.DoGlobalIteration(2)
a, d1 = run2()
if a != b or d0 != d1:
    print('REPRODUCED C12 DEFAULTS: the same 2-D run with default parameters differs after solvers of 6 and 7 variables were built (density %%r -> %%r)' %% (d0, d1)); sys.exit(1)
sys.exit(0)
'''


def plans(run):
    quick = run.quick
    out = []
    base = {'overrides': ['before', 'iter', 'stop']}
    seeds = [(run.seed * 3 + i) % 50 for i in range(2 if quick else 6)] + [4]
    for sd in seeds:
        for kind in ('same', 'other'):
            for kpre in ((0, 2) if quick else (0, 1, 2, 3, 4)):
                K = kpre + 1
                L = kpre + 2
                variants = [{'script': [('iter', K), ('solve',)], 'sibling': None}]
                for name, (script, alone) in schedules(K).items():
                    variants.append({'script': script, 'sibling': kind, 'sibling_alone_script': alone})
                cfg = dict(base, N=1, r=2.5, seed=sd, kpre=kpre, nsym=3, iters_limit=L, eps=1e-9, variants=variants,
                           tags=['sibling-' + kind])
                out.append((cfg, 'f#%d: %d concrete + 2 arbitrary values; other solver of %s dimension, 3 schedules vs alone' % (sd, kpre, kind)))
    # N = 2 main solver (real evolvent, density 2) next to another N = 2 solver on a different box
    for sd in seeds[:1 if quick else 3]:
        variants = [{'script': [('iter', 2), ('solve',)], 'sibling': None}]
        for name, (script, alone) in schedules(2).items():
            variants.append({'script': script, 'sibling': 'same', 'sibling_alone_script': alone})
        variants.append({'script': schedules(2)['lock-step'][0], 'sibling': 'other', 'sibling_alone_script': schedules(2)['lock-step'][1]})
        cfg = dict(base, N=2, r=2.5, seed=sd, kpre=1, nsym=3, iters_limit=3, eps=1e-9, density=2, variants=variants, tags=['two-dimensional'])
        out.append((cfg, 'N=2 f#%d: 1 concrete + 2 arbitrary values; other N=2 solver on a different box, 3 schedules vs alone' % sd))
    # two solvers on the SAME Problem object with different evolvent densities (all values arbitrary; same point => same value)
    variants = [{'script': [('iter', 2), ('solve',)], 'sibling': None},
                {'script': [('other', 1), ('iter', 1), ('other', 1), ('iter', 1), ('solve',)], 'sibling': 'same-problem'},
                {'script': [('iter', 1), ('other', 2), ('iter', 1), ('solve',), ('other', 1)], 'sibling': 'same-problem'}]
    out.append((dict(base, N=2, r=2.5, seed=0, kpre=0, nsym=4, iters_limit=3, eps=1e-9, density=2, variants=variants, tags=['same-problem-object']),
                'N=2, all values arbitrary: a second solver on the same Problem object with another density, 2 schedules vs alone'))
    # both solvers refine their result (minimize contract stub): the Solution kept by the first must survive the second's refinement
    for kind in ('same', 'other'):
        variants = [{'script': [('iter', 2), ('solve',)], 'sibling': None},
                    {'script': [('iter', 2), ('solve',), ('other-solve',)], 'sibling': kind, 'sibling_alone_script': [('other-solve',)]},
                    {'script': [('other-solve',), ('iter', 2), ('solve',), ('other', 1)], 'sibling': kind, 'sibling_alone_script': [('other-solve',), ('other', 1)]}]
        cfg = dict(base, N=1, r=2.5, seed=4, kpre=1, nsym=3, iters_limit=3, eps=1e-9, refine=True, nm_points=1, variants=variants,
                   tags=['with-refinement'])
        out.append((cfg, 'both solvers refine (minimize stub): main f#4 1 concrete + 2 arbitrary values, other solver of %s dimension' % kind))
    return out


def main():
    run = report.Runner(PID, design_ref='5/C12')
    agp.describe(run, what=('method', 'process', 'solver', 'search_data'))
    agp.describe_stubs(run)
    jobs = [(job, p) for p in plans(run)] + [(defaults_job, ())]
    run.bound(runs='main solver: up to 6 trials (reachable prefix of 0..4 concrete values + 2 arbitrary values), N in {1,2}; other solver: same '
                   'dimension and density on a different box, or another dimension; schedules lock-step / other-first / blocks with the other '
                   'solver also run to its end; Solutions kept from Solve and re-read afterwards')
    run.stub('scipy.optimize.minimize -> MinimizeStub (one arbitrary point inside the bounds) in the refinement family')
    run.not_covered('three or more solvers; the real Nelder-Mead (contract stub, see C05); threads')
    run.parallel(jobs)
    for r_, c in list(run.candidates()):
        if c['detail'].get('level') == 'defaults':
            rp = run.write_replay('defaults', DEFAULTS_REPLAY % {'verif': report.VERIF})
            ok, out = run.run_replay(rp)
            if ok:
                run.confirmed('C12:defaults', (out or '').strip()[-300:], rp)
            else:
                run.unconfirmed(c['label'], (out or '')[-200:])
    for r_ in run.jobs:
        r_['cex'] = [x for x in r_.get('cex', []) if x['detail'].get('level') != 'defaults']
    agp.confirm(run, WANT)
    run.finish('with another solver created and iterated in between under every listed schedule, each solver makes the trials it makes alone, '
               'its record and result are unchanged and a Solution obtained earlier still reports its own optimum',
               vacuity=['compose', 'symbolic-values', 'sibling-same', 'sibling-other', 'two-dimensional', 'with-refinement', 'default-parameters', 'same-problem-object'])


if __name__ == '__main__':
    main()
