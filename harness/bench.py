"""Common set-up for the benchmark-problem checks (C10, C14, C15, C18): imports the problem modules from /repo's working tree,
installs the math / numpy shims and evaluates the REAL Problem.Calculate on symbolic points."""
import fractions
import math
import os
import sys

import z3

sys.path.insert(0, os.path.dirname(os.path.dirname(os.path.abspath(__file__))))
from symex import core, shims, report  # noqa: E402
from symex.core import Explorer, Sym, HarnessError  # noqa: E402

F = fractions.Fraction
_ST = {}
MODS = {
    'hill': 'iOpt.problems.hill', 'shekel': 'iOpt.problems.shekel', 'shekel4': 'iOpt.problems.shekel4',
    'rastrigin': 'iOpt.problems.rastrigin', 'xsquared': 'iOpt.problems.xsquared', 'grishagin': 'iOpt.problems.grishagin',
    'grishagin_f': 'iOpt.problems.grishagin_function.grishagin_function', 'gkls': 'iOpt.problems.GKLS',
    'gkls_f': 'iOpt.problems.GKLS_function.gkls_function', 'gkls_r': 'iOpt.problems.GKLS_function.gkls_random',
    'stronginC3': 'iOpt.problems.stronginC3', 'hillgen': 'iOpt.problems.Hill.hill_generation',
    'shekelgen': 'iOpt.problems.Shekel.shekel_generation', 'trial': 'iOpt.trial', 'problem': 'iOpt.problem',
}


def setup():
    if _ST:
        return _ST
    import importlib
    report.fresh_repo_import()
    mods = {k: importlib.import_module(v) for k, v in MODS.items()}
    ms = shims.MathShim()
    nps = shims.NPShim(ms)
    _ST.update(mods=mods, ms=ms, nps=nps, undo=[])
    return _ST


def shim_on(names, trig=None):
    """install the shims into the named problem modules (numpy -> NPShim, math -> MathShim)"""
    st = setup()
    for n in names:
        m = st['mods'][n]
        kw = {}
        if hasattr(m, 'np'):
            kw['np'] = st['nps']
        if hasattr(m, 'math'):
            kw['math'] = st['ms']
        st['undo'].append(shims.install(m, **kw))


def shim_off():
    st = setup()
    while st['undo']:
        st['undo'].pop()()


def new_math(trig_mode='tanhalf', base=1, K=None):
    """fresh per-path state of the math shim (angle registry, caches)"""
    st = setup()
    ms = st['ms']
    ms.opaque = False
    for k in ('_mc', '_dp', '_pm', '_ti', '_op'):
        ms.__dict__.pop(k, None)
    ms.angles = shims.Angle()
    ms.trig_mode, ms.trig_base, ms.trig_K = trig_mode, base, K
    ms.trig_log = []
    return ms


def evaluate(problem, point):
    """the real Problem.Calculate on a (symbolic) point; returns the value stored in the supplied holder"""
    st = setup()
    T = st['mods']['trial']
    fv = T.FunctionValue()
    pt = T.Point(shims.SArr(list(point), 'f') if any(isinstance(v, Sym) for v in point) else list(point), [])
    out = problem.Calculate(pt, fv)
    return out.value, out, fv, pt


def known(problem):
    ko = problem.knownOptimum[0]
    return [float(v) for v in ko.point.floatVariables], float(ko.functionValues[0].value)


def job_wall():
    d = 1500 if os.environ.get('VERIF_TIER', '') == 'thorough' or '--tier thorough' in ' '.join(sys.argv) else 420
    return int(os.environ.get('VERIF_JOB_WALL', d))


def nra(name, timeout_ms=60000):
    return Explorer(mode='EXACT', logic='QF_NRA', name=name, timeout_ms=timeout_ms, ratfun=True, scratch=True, wall_s=job_wall())


def x_range_to_t(t, u, v, base=2):
    """constraint on t = tan(base*pi*x/2) equivalent to u <= x <= v for x in [0, 2/base) (x = 1/base is t = infinity)"""
    half = 1.0 / base
    def tn(x):
        return z3.RealVal(F(math.tan(base * math.pi * x / 2)))
    if v < half:
        return z3.And(t >= tn(u), t <= tn(v))
    if u > half:
        return z3.And(t >= tn(u), t <= tn(v))
    return z3.Or(t >= tn(u), t <= tn(v))
