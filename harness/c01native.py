"""z3-free part of the C01 check: the end-to-end twin clause (numbers are symbolic proxies in the harness, floats in the replay)."""
import os
import sys

sys.path.insert(0, os.path.dirname(os.path.dirname(os.path.abspath(__file__))))
from harness import agpnative as an  # noqa: E402


def twin_clauses(mods, ctx, want):
    """End-to-end: returned value - min of the smallest L-Lipschitz interpolant < (r*M/2)*eps when stopped by accuracy and r*M >= 2L."""
    out = []
    cfg = ctx['cfg']
    L = ctx['Lip']
    r, eps = ctx['r'], ctx['eps']
    tr = an.trials_of(ctx['listener'])
    solves = [x for x in ctx['returned'] if x[0] == 'solve']
    if not solves or not tr:
        return out
    sol = solves[0][1]
    n = len(tr)
    if n >= cfg['iters_limit']:
        return out                     # stopped by the budget: nothing is claimed
    pts = sorted(tr, key=lambda t: _K(t[0]))
    # observed slope estimate (history order), floored at 1
    M = 1.0
    order = [(0.0, None), (tr[0][0], tr[0][1]), (1.0, None)]
    for k in range(1, n):
        xk, zk = tr[k]
        t = [j for j in range(1, len(order)) if an.bool_of(an.LT(xk, order[j][0]))][0]
        for (xa, za), (xb, zb) in ((order[t - 1], (xk, zk)), ((xk, zk), order[t])):
            if za is not None and zb is not None:
                m = abs(zb - za) / (xb - xa)
                if an.bool_of(an.LT(M, m)):
                    M = m
        order.insert(t, (xk, zk))
    if not an.bool_of(an.LE(2 * L, r * M)):
        return out                     # reliability condition r*M >= K_1*L (K_1 = 2) does not hold: nothing is claimed
    best = sol.bestTrials[0].functionValues[0].value
    bound = (r * M / 2) * eps
    # minimum of the lower envelope: interior intervals (z_i + z_j)/2 - L (x_j - x_i)/2, outer intervals z - L * length
    cands = [pts[0][1] - L * pts[0][0], pts[-1][1] - L * (1 - pts[-1][0])]
    for (xa, za), (xb, zb) in zip(pts, pts[1:]):
        cands.append((za + zb) / 2 - L * (xb - xa) / 2)
    for c in cands:
        out.append(('C01 TWIN: the returned value exceeds the minimum of every L-Lipschitz objective consistent with the trials by less than (r*M/2)*eps',
                    an.LT(best - c, bound)))
    return out


class _K:
    def __init__(self, v):
        self.v = v

    def __lt__(self, o):
        return an.bool_of(an.LT(self.v, o.v))


