"""C02 -- every trial is placed by the AGP decision rule (DESIGN.md section 5, C02).

K1  kernels vs the statement's formulas (EXACT, all inputs): CalculateGlobalR (3 interval forms), CalculateM,
    CalculateNextPointCoordinate (N = 1..5; inside the interval under |dz| <= M*D), CalculateDelta, FirstIteration.
L2  one real DoGlobalIteration(1) from an arbitrary state satisfying the representation invariant (ABSTRACT arithmetic,
    symbolic coordinates, values, M, r; 1..3 evaluated trials; N = 1 real evolvent, N = 2,3 evolvent stub): the subdivided
    interval has a maximal characteristic w.r.t. M and z* at decision time, the new point is the rule's point, strictly
    inside; the invariant is re-established (M dominates, recalc pending iff needed, queue = all intervals, keys current).
L3  reachable prefix + symbolic suffix through the public interface (EXACT, rational-function arithmetic): the first kpre
    objective values come from a concrete function, the following ones are arbitrary reals; the statement's decision
    rule is re-computed from the observed history (independent reference) and every trial must satisfy it.
"""
import os
import sys

import z3

sys.path.insert(0, os.path.dirname(os.path.dirname(os.path.abspath(__file__))))
from harness import agp, agpnative as an  # noqa: E402
from symex import core, report  # noqa: E402
from symex.core import Explorer, Sym, SymBool  # noqa: E402

PID = 'C02'
WANT = ('C02',)


# ---------------------------------------------------------------------------------------------- K1
def kernel_job(which, N):
    st = agp.setup()
    mods = st['mods']

    def h(ex):
        r = ex.real('r')
        ex.assume(r.t > 1)
        s, prob = agp.new_solver(ex, N, lambda ys, i: 0.0, r, 0.01, 1000)
        v = {}
        for n in ('xl', 'xr', 'zl', 'zr', 'M', 'Z'):
            v[n] = ex.real(n)
        ex.assume(z3.And(v['xl'].t >= 0, v['xl'].t < v['xr'].t, v['xr'].t <= 1, v['M'].t >= 1))
        if which == 'delta':
            v['D'] = None
        else:
            D = ex.real('D')
            ex.assume(D.t > 0)
            v['D'] = D
        if which.startswith('X-'):
            # hypothesis of the statement: D is the Hoelder length of the interval and M dominates the slope
            p = D
            for _ in range(N - 1):
                p = p * D
            ex.assume(p == v['xr'] - v['xl'])
            if which == 'X-interior':
                ex.assume(abs(v['zr'] - v['zl']) <= v['M'] * D)
        cl = an.kernel_clauses(mods, s, which, N, v)
        ex.tag('kernel-' + which)
        agp.prove_all(ex, cl, detail={'which': which})
        return which
    ex = agp.exact_explorer('K1 %s N=%d' % (which, N), timeout_ms=60000)
    ex.explore(h, sample_every=3)
    return agp.summary(ex, 'kernel %s vs formula, N=%d' % (which, N), {'N': N, 'which': which},
                       {'level': 'kernel', 'which': which, 'N': N, 'derive_D': which.startswith('X-') or which == 'delta'})


def first_job(N, m):
    st = agp.setup()
    mods = st['mods']

    def h(ex):
        obj = agp.Objective(ex)
        s, prob = agp.new_solver(ex, N, obj, 2.5, 0.01, 1000, density=m)
        L = an.listener_class(mods)()
        s.AddListener(L)
        s.DoGlobalIteration(1)
        lower, upper = agp.BOXES[N]
        img = list(mods.evolvent.Evolvent(lower, upper, N, m).GetImage(0.5))
        tr = an.trials_of(L)
        ex.prove(len(tr) == 1 and len(prob.started) == 1, 'C02 FIRST: the first iteration makes exactly one trial')
        ex.prove(an.EQ(tr[0][0], 0.5), 'C02 FIRST: the first trial is at curve coordinate 0.5')
        for a, b in zip(img, prob.started[0]):
            ex.prove(an.EQ(a, b), 'C02 FIRSTIMG: the first trial is the evolvent image of 0.5')
        obs = an.observe(s)
        ex.prove(len(obs['xs']) == 3 and obs['xs'][0] == 0.0 and obs['xs'][2] == 1.0 and obs['idx'] == [-2, 0, -2],
                 'C02 FIRST: the partition after the first iteration is 0, 0.5, 1 with unevaluated ends')
        ex.tag('first-iteration')
        return None
    ex = agp.exact_explorer('FIRST N=%d m=%d' % (N, m))
    ex.explore(h, sample_every=1)
    return agp.summary(ex, 'first iteration N=%d m=%d' % (N, m), {'N': N, 'm': m},
                       {'level': 'prefix', 'N': N, 'r': 2.5, 'seed': 0, 'kpre': 0, 'script': [('iter', 1)], 'density': m, 'nsym': 1})


# ---------------------------------------------------------------------------------------------- L3
def prefix_job(N, r, seed, kpre, S, want=WANT, density=None, zrange=1000):
    st = agp.setup()
    mods = st['mods']
    agp.use_queue_stub(True)
    script = [('iter', kpre + S + 1)]

    def h(ex):
        obj = agp.PrefixObjective(ex, seed, N, kpre, zrange=zrange)
        rr = agp.exact_const(r)      # every operation on r is exact, in the code and in the reference alike
        s, prob = agp.new_solver(ex, N, obj, rr, 1e-9, 10 ** 6, density=density)
        L = an.listener_class(mods)()
        s.AddListener(L)
        an.run_script(mods, s, script)
        lower, upper = agp.BOXES[N]
        Ev = mods.evolvent.Evolvent

        def fresh_image(x):
            return list(Ev(lower, upper, N, s.evolvent.evolventDensity).GetImage(x))
        cl = an.run_clauses(mods, s, prob, L, want, rr, N, fresh_image=fresh_image if N == 1 else None)
        ex.tag('prefix-run')
        tr = an.trials_of(L)
        if any(isinstance(t[0], Sym) and t[0].const() is None for t in tr):
            ex.tag('trial-location-depends-on-symbolic-values')
        agp.prove_all(ex, cl)
        return [str(t[0])[:14] for t in tr]
    ex = agp.exact_explorer('PREFIX N=%d r=%s seed=%d k=%d S=%d' % (N, r, seed, kpre, S))
    ex.explore(h, sample_every=17)
    return agp.summary(ex, 'reachable prefix: N=%d r=%s f#%d, %d concrete + %d symbolic values' % (N, r, seed, kpre, S + 1),
                       {'N': N, 'r': r, 'prefix_function': seed, 'concrete_trials': kpre, 'symbolic_values': S + 1},
                       {'level': 'prefix', 'N': N, 'r': r, 'seed': seed, 'kpre': kpre, 'script': script, 'density': density,
                        'nsym': S + 2})


# ---------------------------------------------------------------------------------------------- main
def replay_args(c, want):
    d = dict(c['detail'])
    a = {'want': list(want), 'model': c['model'], 'N': d.get('N', 1)}
    a.update({k: v for k, v in d.items() if k not in ('path', 'kind', 'exception')})
    return a


def confirm(run, want, kinds_needing_e2e=('I',)):
    """Replays every distinct candidate natively; 'P' clauses and run-level clauses count when they reproduce."""
    groups = {}
    for r, c in run.candidates():
        d = c.get('detail', {})
        key = (d.get('level'), c['label'].split(':')[0], d.get('N'), d.get('which'))
        groups.setdefault(key, []).append(c)
    lemma_only = []
    for key, cs in sorted(groups.items(), key=lambda kv: str(kv[0])):
        level, head = key[0], key[1]
        kind = cs[0].get('detail', {}).get('kind')
        if level == 'step' and kind in kinds_needing_e2e:
            lemma_only.append((head, cs[0]))
            continue
        ok_any = False
        last = ''
        for c in cs[:4]:
            a = replay_args(c, want)
            rp = run.write_replay(head.replace(' ', '_')[:30], an.REPLAY_TEMPLATE % {'verif': report.VERIF, 'args': a})
            ok, out = run.run_replay(rp)
            last = (out or '').strip()[-400:]
            if ok:
                ok_any = True
                run.confirmed('%s:%s:%s' % (run.pid, level, head), '%s [%s level, N=%s]: %s' % (c['label'], level, key[2], last), rp)
                break
        if not ok_any:
            run.unconfirmed('%s (%s level)' % (cs[0]['label'], level), last)
    if lemma_only:
        if run.violations:
            run.extra['lemma_failures_explained_by_confirmed_violations'] = [h for h, _ in lemma_only]
        else:
            for h, c in lemma_only:
                run.unconfirmed('%s (invariant-preservation lemma of the step check; no end-to-end witness found)' % c['label'],
                                'model: %s' % c['model'])
    if run.violations:
        run.cex_unconfirmed = []


def step_jobs(run, want, plan):
    jobs = []
    for (N, k) in plan:
        for recalc in (False, True):
            for best in range(k):
                jobs.append((agp.step_job, (N, k, want, False, 30000, recalc, True, best)))
    return jobs


def main():
    run = report.Runner(PID, design_ref='5/C02')
    agp.describe(run)
    run.stub('Evolvent.GetImage for N >= 2 in the step checks -> arbitrary map into the open box (EvolventStub); real evolvent for N = 1 '
             'and in the prefix runs')
    run.stub('depq.DEPQ in the step checks and prefix runs -> QueueStub (unbounded max-priority queue, earliest-inserted among equals); '
             'the real DEPQ is executed in the "+real DEPQ" step jobs and in C19')
    quick = run.quick
    jobs = []
    # K1
    for which in ('R-interior', 'R-left-boundary', 'R-right-boundary', 'M-interior', 'M-left-boundary', 'M-right-boundary'):
        jobs.append((kernel_job, (which, 1)))
    for N in ((1, 2, 3) if quick else (1, 2, 3, 4, 5)):
        jobs.append((kernel_job, ('delta', N)))
        for which in ('X-interior', 'X-left-boundary', 'X-right-boundary'):
            jobs.append((kernel_job, (which, N)))
    for (N, m) in ((1, 3), (2, 2), (3, 2)):
        jobs.append((first_job, (N, m)))
    # L2
    plan = [(1, 1), (1, 2), (2, 2)] if quick else [(1, 1), (1, 2), (2, 2), (3, 2), (1, 3), (2, 3)]
    jobs += step_jobs(run, WANT, plan)
    # L3
    seeds = [(run.seed * 7 + i) % 50 for i in range(4 if quick else 10)] + [3, 4]
    rs = (2.5, 1.3) if quick else (2.5, 1.3, 3.7, 1.05)
    for i, sd in enumerate(seeds):
        for r in rs:
            for kpre in ((2, 3, 4) if quick else (2, 3, 4, 5, 6)):
                jobs.append((prefix_job, (1, r, sd, kpre, 1)))
    if not quick:
        for sd in seeds[:3]:
            jobs.append((prefix_job, (1, 2.5, sd, 3, 2)))
    run.bound(kernels='all real inputs with 0 <= xl < xr <= 1, M >= 1, r > 1; N = 1..%d' % (3 if quick else 5),
              step='%s (N, evaluated trials); symbolic coordinates, values, M >= 1 dominating the slopes, r > 1, recalc in {pending, not}' % plan,
              prefix_runs='N = 1, r in %s, %d prefix functions, 2..7 concrete trials followed by 2 (thorough: up to 3) arbitrary values in [-1000, 1000]'
                          % (list(rs), len(seeds)))
    run.not_covered('floats (real arithmetic); partitions with more than 3 evaluated trials in the symbolic pre-state; N >= 2 in the prefix runs '
                    '(N enters the method only through the Hoelder length and the N-th power, covered by K1 for N <= 5 and by the step '
                    'checks for N <= 3); a bounded characteristics queue (Solver never sets maxlen)')
    run.assume('floats are modelled as reals; concrete prefix values are lifted exactly')
    res = run.parallel(jobs)
    confirm(run, WANT)
    run.finish('every trial subdivides an interval of maximal characteristic at the point given by the decision rule, strictly inside it; '
               'first trial at the image of 0.5; no coordinate twice',
               vacuity=['kernel-R-interior', 'kernel-X-interior', 'first-iteration', 'recalc-pending', 'recalc-not-pending',
                        'interior-interval', 'left-boundary-interval', 'right-boundary-interval', 'new-optimum', 'optimum-kept',
                        'prefix-run', 'trial-location-depends-on-symbolic-values'])


if __name__ == '__main__':
    main()
