"""C02 -- every trial is placed by the AGP decision rule (DESIGN.md section 5, C02).

K1  kernels vs the statement's formulas (EXACT, all inputs): CalculateGlobalR (3 interval forms), CalculateM,
    CalculateNextPointCoordinate (N = 1..5; inside the interval under |dz| <= M*D), CalculateDelta, FirstIteration.
L2  one real DoGlobalIteration(1) from an arbitrary state satisfying the representation invariant (ABSTRACT arithmetic,
    symbolic coordinates, values, M, r; 1..3 evaluated trials; N = 1 real evolvent, N = 2,3 evolvent stub): the subdivided
    interval has a maximal characteristic w.r.t. M and z* at decision time, the new point is the rule's point, strictly
    inside; the invariant is re-established (M dominates, recalc pending iff needed, queue = all intervals, keys current).
L3  reachable prefix + symbolic suffix through the public interface (EXACT, rational-function arithmetic): the first kpre
    objective values come from a concrete function, the following ones are arbitrary reals; the statement's decision
    rule is re-computed from the observed history (independent reference) and every trial must satisfy it.
"""
import os
import sys

import z3

sys.path.insert(0, os.path.dirname(os.path.dirname(os.path.abspath(__file__))))
from harness import agp, agpnative as an  # noqa: E402
from symex import core, report  # noqa: E402
from symex.core import Explorer, Sym, SymBool  # noqa: E402

PID = 'C02'
WANT = ('C02',)


# ---------------------------------------------------------------------------------------------- K1
def kernel_job(which, N):
    st = agp.setup()
    mods = st['mods']

    def h(ex):
        r = ex.real('r')
        ex.assume(r.t > 1)
        s, prob = agp.new_solver(ex, N, lambda ys, i: 0.0, r, 0.01, 1000)
        v = {}
        for n in ('xl', 'xr', 'zl', 'zr', 'M', 'Z'):
            v[n] = ex.real(n)
        ex.assume(z3.And(v['xl'].t >= 0, v['xl'].t < v['xr'].t, v['xr'].t <= 1, v['M'].t >= 1))
        if which == 'delta':
            v['D'] = None
        else:
            D = ex.real('D')
            ex.assume(D.t > 0)
            v['D'] = D
        if which.startswith('X-'):
            # hypothesis of the statement: D is the Hoelder length of the interval and M dominates the slope
            p = D
            for _ in range(N - 1):
                p = p * D
            ex.assume(p == v['xr'] - v['xl'])
            if which == 'X-interior':
                ex.assume(abs(v['zr'] - v['zl']) <= v['M'] * D)
        cl = an.kernel_clauses(mods, s, which, N, v)
        ex.tag('kernel-' + which)
        agp.prove_all(ex, cl, detail={'which': which})
        return which
    ex = agp.exact_explorer('K1 %s N=%d' % (which, N), timeout_ms=60000)
    ex.explore(h, sample_every=3)
    return agp.summary(ex, 'kernel %s vs formula, N=%d' % (which, N), {'N': N, 'which': which},
                       {'level': 'kernel', 'which': which, 'N': N, 'derive_D': which.startswith('X-') or which == 'delta'})


def renew_job(N, ends):
    """the real RenewSearchData on a symbolic two-interval list (EXACT): lengths, M, characteristics, links"""
    st = agp.setup()
    mods = st['mods']
    agp.use_queue_stub(True)

    def h(ex):
        r = ex.real('r')
        ex.assume(r.t > 1)
        s, prob = agp.new_solver(ex, N, lambda ys, i: 0.0, r, 0.01, 1000, stub_evolvent=agp.EvolventStub(ex, N, *agp.BOXES[N]) if N >= 2 else None)
        v = {n: ex.real(n) for n in ('xl', 'xr', 'xn', 'zl', 'zr', 'zn', 'M', 'Z')}
        ex.assume(z3.And(v['xl'].t >= 0, v['xl'].t < v['xn'].t, v['xn'].t < v['xr'].t, v['xr'].t <= 1, v['M'].t >= 1))
        if ends == 'unevaluated':
            v['zl'] = v['zr'] = None
            ex.assume(v['Z'].t <= v['zn'].t)
        else:
            ex.assume(z3.And(v['Z'].t <= v['zn'].t, v['Z'].t <= v['zl'].t, v['Z'].t <= v['zr'].t))
        cl = an.kernel_clauses(mods, s, 'renew', N, v)
        ex.tag('kernel-renew')
        agp.prove_all(ex, cl, detail={'which': 'renew'})
    ex = agp.exact_explorer('K1 renew N=%d %s' % (N, ends), timeout_ms=60000)
    ex.explore(h, sample_every=3)
    return agp.summary(ex, 'kernel RenewSearchData N=%d, ends %s' % (N, ends), {'N': N},
                       {'level': 'kernel', 'which': 'renew', 'N': N, 'ends_unevaluated': ends == 'unevaluated'})


def first_job(N, m):
    st = agp.setup()
    mods = st['mods']

    def h(ex):
        obj = agp.Objective(ex)
        s, prob = agp.new_solver(ex, N, obj, 2.5, 0.01, 1000, density=m)
        L = an.listener_class(mods)()
        s.AddListener(L)
        s.DoGlobalIteration(1)
        lower, upper = agp.BOXES[N]
        img = list(mods.evolvent.Evolvent(lower, upper, N, m).GetImage(0.5))
        tr = an.trials_of(L)
        ex.prove(len(tr) == 1 and len(prob.started) == 1, 'C02 FIRST: the first iteration makes exactly one trial')
        ex.prove(an.EQ(tr[0][0], 0.5), 'C02 FIRST: the first trial is at curve coordinate 0.5')
        for a, b in zip(img, prob.started[0]):
            ex.prove(an.EQ(a, b), 'C02 FIRSTIMG: the first trial is the evolvent image of 0.5')
        obs = an.observe(s)
        ex.prove(len(obs['xs']) == 3 and obs['xs'][0] == 0.0 and obs['xs'][2] == 1.0 and obs['idx'] == [-2, 0, -2],
                 'C02 FIRST: the partition after the first iteration is 0, 0.5, 1 with unevaluated ends')
        ex.tag('first-iteration')
        return None
    ex = agp.exact_explorer('FIRST N=%d m=%d' % (N, m))
    ex.explore(h, sample_every=1)
    return agp.summary(ex, 'first iteration N=%d m=%d' % (N, m), {'N': N, 'm': m},
                       {'level': 'scenario', 'N': N, 'cfg': {'N': N, 'r': 2.5, 'seed': 0, 'kpre': 0, 'script': [('iter', 1)], 'density': m,
                                                             'nsym': 1, 'overrides': ['before', 'iter', 'stop']}})


def queue_config_job():
    """The decision rule needs EVERY interval to stay queued: the Solver must build an unbounded characteristics queue."""
    st = agp.setup()
    agp.use_queue_stub(False)

    def h(ex):
        obj = agp.Objective(ex)
        s, prob = agp.new_solver(ex, 2, obj, 2.5, 0.01, 1000)
        ml = s.searchData._RGlobalQueue.GetMaxLen()
        ex.prove(ml is None, 'C02 QUEUE-UNBOUNDED: the solver\'s characteristics queue keeps every interval (no eviction)', {'maxlen': ml})
        ex.tag('queue-config')
    ex = agp.exact_explorer('QUEUE CONFIG')
    ex.explore(h)
    s = agp.summary(ex, 'the characteristics queue built by Solver is unbounded', None, {'level': 'queue-config', 'N': 2})
    return s


# ---------------------------------------------------------------------------------------------- L3
def prefix_job(N, r, seed, kpre, S, want=WANT, real_queue=False, resume=False):
    # resume: Solve() runs into the budget after kpre trials, then the search is continued by hand
    script = [('solve',), ('iter', S + 1)] if resume else [('iter', kpre + S + 1)]
    cfg = {'N': N, 'r': r, 'seed': seed, 'kpre': kpre, 'nsym': S + 2, 'script': script, 'iters_limit': kpre if resume else 10 ** 6, 'overrides': ['before', 'iter', 'stop'],
           'real_queue': real_queue, 'sibling': 'other'}
    return agp.scenario_job(cfg, want, label='reachable prefix: N=%d r=%s f#%d, %d concrete + %d symbolic values%s'
                            % (N, r, seed, kpre, S + 1, ' (real DEPQ)' if real_queue else ''))


def queue_witness(run):
    """A bounded queue is a structural finding; it becomes a violation only with an end-to-end witness: a long native run, sized from the
    bound, in which some trial subdivides an interval that does not have the maximal characteristic."""
    for r_, c in list(run.candidates()):
        if c['detail'].get('level') == 'queue-config':
            ml = c['detail'].get('maxlen')
            if isinstance(ml, int) and ml <= 6000:
                a = {'level': 'longrun', 'want': ['C02'], 'N': 2, 'model': {}, 'r': 3.5, 'iters': int(3.6 * ml) + 50, 'seed': 1}
                rp = run.write_replay('longrun', an.REPLAY_TEMPLATE % {'verif': report.VERIF, 'args': a})
                ok, out = run.run_replay(rp, timeout=2400)
                if ok:
                    run.confirmed('%s:queue-bounded' % run.pid, 'the characteristics queue is bounded (maxlen=%s); in a run of %d trials: %s' % (ml, a['iters'], (out or '').strip()[-300:]), rp)
                else:
                    run.unconfirmed(c['label'], 'no violating trial in a native run of %d iterations: %s' % (a['iters'], (out or '')[-200:]))
            else:
                run.unconfirmed(c['label'], 'maxlen=%r: a native witness run would be too long' % (ml,))
    for r_ in run.jobs:
        r_['cex'] = [x for x in r_.get('cex', []) if x['detail'].get('level') != 'queue-config']


def main():
    run = report.Runner(PID, design_ref='5/C02')
    agp.describe(run)
    agp.describe_stubs(run)
    quick = run.quick
    jobs = []
    # K1
    for which in ('R-interior', 'R-left-boundary', 'R-right-boundary', 'M-interior', 'M-left-boundary', 'M-right-boundary'):
        jobs.append((kernel_job, (which, 1)))
    for N in ((1, 2, 3) if quick else (1, 2, 3, 4, 5)):
        jobs.append((kernel_job, ('delta', N)))
        for which in ('X-interior', 'X-left-boundary', 'X-right-boundary'):
            jobs.append((kernel_job, (which, N)))
    for (N, m) in ((1, 3), (2, 2), (3, 2)):
        jobs.append((first_job, (N, m)))
    jobs.append((queue_config_job, ()))
    for N in (1, 2, 3):
        for ends in ('unevaluated', 'evaluated'):
            jobs.append((renew_job, (N, ends)))
    # L2
    plan = [(1, 1), (1, 2), (2, 2)] if quick else [(1, 1), (1, 2), (2, 2), (3, 2), (1, 3), (2, 3)]
    jobs += agp.step_jobs(WANT, plan)
    # L3
    seeds = [(run.seed * 7 + i) % 50 for i in range(4 if quick else 10)] + [3, 4]
    rs = (2.5, 1.3) if quick else (2.5, 1.3, 3.7, 1.05)
    for i, sd in enumerate(seeds):
        for r in rs:
            for kpre in ((2, 3, 4) if quick else (2, 3, 4, 5, 6)):
                jobs.append((prefix_job, (1, r, sd, kpre, 1)))
    jobs.append((prefix_job, (1, 2.5, seeds[0], 2, 1, WANT, True)))      # the real DEPQ end to end
    for sd in seeds[:3]:
        jobs.append((prefix_job, (1, 2.5, sd, 3, 1, WANT, False, True)))     # Solve stops on the budget, the search is resumed by DoGlobalIteration
    if not quick:
        for sd in seeds[:3]:
            jobs.append((prefix_job, (1, 2.5, sd, 3, 2)))
            jobs.append((prefix_job, (1, 1.3, sd, 3, 1, WANT, True)))
    run.bound(kernels='all real inputs with 0 <= xl < xr <= 1, M >= 1, r > 1; N = 1..%d' % (3 if quick else 5),
              step='%s (N, evaluated trials); symbolic coordinates, values, M >= 1 dominating the slopes, r > 1, recalc in {pending, not}' % plan,
              prefix_runs='N = 1, r in %s, %d prefix functions, 2..7 concrete trials followed by 2 (thorough: up to 3) arbitrary values in [-1000, 1000]'
                          % (list(rs), len(seeds)))
    run.not_covered('floats (real arithmetic); partitions with more than 3 evaluated trials in the symbolic pre-state; N >= 2 in the prefix runs '
                    '(N enters the method only through the Hoelder length and the N-th power, covered by K1 for N <= 5 and by the step '
                    'checks for N <= 3); a bounded characteristics queue (Solver never sets maxlen)')
    res = run.parallel(jobs)
    queue_witness(run)
    agp.confirm(run, WANT)
    run.finish('every trial subdivides an interval of maximal characteristic at the point given by the decision rule, strictly inside it; '
               'first trial at the image of 0.5; no coordinate twice',
               vacuity=['kernel-R-interior', 'kernel-X-interior', 'first-iteration', 'queue-config', 'recalc-pending', 'recalc-not-pending',
                        'interior-interval', 'left-boundary-interval', 'right-boundary-interval', 'new-optimum', 'optimum-kept',
                        'scenario', 'trial-location-depends-on-symbolic-values'])


if __name__ == '__main__':
    main()
