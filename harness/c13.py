"""C13 -- listener contract: complete, ordered, non-interfering notification (DESIGN.md section 5, C13).

Self-composition in one symbolic run: the same objective (reachable concrete prefix + arbitrary values) is optimised by a
reference solver WITHOUT listeners and by solvers carrying (a) a recording listener derived from the repository's base
Listener that overrides one of the 16 subsets of {BeforeMethodStart, OnEndIteration, OnMethodStop, OnRefrash} and
(b) the shipped ConsoleFullOutputListener in modes full / custom / result, with stdout captured.  Iterations are made in
DoGlobalIteration batches followed by Solve.  Clauses: no exception escapes; BeforeMethodStart once before the first
trial; one OnEndIteration per DoGlobalIteration call with exactly that call's new trials in order; OnMethodStop once per
Solve with the final solution; trials and result identical to the listener-free run; the console's final report contains
the solution's own numbers (symbolic values print as tags naming the term, so the solver-decided comparison is exact).
One family runs with refineSolution=True under the minimize contract stub (the reported value is then the refined one).
The painting listeners (matplotlib / sklearn over numpy arrays) cannot be executed symbolically: for them only a GROUND native
differential run is made (harness/c13painters.py: 28 configurations, concrete objectives, with vs without the listener).
"""
import itertools
import os
import sys

sys.path.insert(0, os.path.dirname(os.path.dirname(os.path.abspath(__file__))))
from harness import agp, agpnative as an  # noqa: E402
from symex import report  # noqa: E402

PID = 'C13'
WANT = ('C13',)
CALLBACKS = ('before', 'iter', 'stop', 'refresh')


def job(cfg, label):
    return agp.compose_job(cfg, WANT, an.listener_clauses, label=label)


def subsets():
    out = []
    for n in range(len(CALLBACKS) + 1):
        for c in itertools.combinations(CALLBACKS, n):
            out.append(list(c))
    return out


def plans(run):
    quick = run.quick
    out = []
    seeds = [(run.seed * 3 + i) % 50 for i in range(1 if quick else 4)] + [4]
    subs = subsets()
    for si, sd in enumerate(seeds):
        for (kpre, batches) in (((1, [1, 1]), (2, [3])) if quick else ((0, [1]), (1, [1, 1]), (2, [3]), (2, [1, 2]), (3, [2, 2]))):
            K = sum(batches)
            L = K + 1
            script = [('iter', n) for n in batches] + [('solve',)]
            # the 16 subsets are spread over the plans (every plan: 6 of them, every subset in some plan of the run)
            mine = [subs[(si * 5 + kpre * 3 + j * 3) % 16] for j in range(6)] + [list(CALLBACKS), ['iter'], []]
            variants = [{'script': script, 'overrides': None}]
            seen = []
            for ov in mine:
                if ov not in seen:
                    seen.append(ov)
                    variants.append({'script': script, 'overrides': ov})
            for mode in ('full', 'custom', 'result'):
                variants.append({'script': script, 'overrides': None, 'console': mode})
            variants.append({'script': script, 'overrides': ['before', 'iter', 'stop'], 'console': 'full'})
            variants.append({'script': script, 'overrides': ['before', 'iter', 'stop'], 'console': 'full', 'console_first': True})      # console attached BEFORE the recorder
            cfg = dict(N=1, r=2.5, seed=sd, kpre=kpre, nsym=3, iters_limit=L, eps=1e-9, variants=variants, tags=['listeners'])
            out.append((cfg, 'f#%d: %d concrete + 2 arbitrary values, batches %s then Solve: %d override subsets + console modes vs no listener'
                        % (sd, kpre, batches, len(seen))))
    # the batches use up the whole budget: Solve has nothing left to do but must still notify; and Solve twice
    script = [('iter', 2), ('iter', 1), ('solve',), ('solve',)]
    variants = [{'script': script, 'overrides': None}, {'script': script, 'overrides': ['stop']}, {'script': script, 'overrides': list(CALLBACKS)},
                {'script': script, 'overrides': None, 'console': 'result'}, {'script': script, 'overrides': ['iter', 'stop'], 'console': 'custom', 'console_first': True}]
    out.append((dict(N=1, r=2.5, seed=seeds[0], kpre=1, nsym=3, iters_limit=3, eps=1e-9, variants=variants, tags=['solve-with-nothing-left']),
                'batches exhaust itersLimit=3, then Solve twice: listeners vs none'))
    # all 16 subsets on one fresh short run
    script = [('iter', 1), ('iter', 1), ('solve',)]
    variants = [{'script': script, 'overrides': None}] + [{'script': script, 'overrides': ov} for ov in subs]
    out.append((dict(N=1, r=2.5, seed=0, kpre=0, nsym=3, iters_limit=3, eps=1e-9, variants=variants, tags=['all-16-subsets']),
                'fresh run, 3 arbitrary values: all 16 subsets of overridden callbacks vs no listener'))
    # N = 2 and refinement
    script = [('iter', 2), ('solve',)]
    variants = [{'script': script, 'overrides': None}, {'script': script, 'overrides': list(CALLBACKS)}, {'script': script, 'overrides': ['stop']},
                {'script': script, 'overrides': None, 'console': 'full'}, {'script': script, 'overrides': None, 'console': 'result'}]
    out.append((dict(N=2, r=2.5, seed=seeds[0], kpre=1, nsym=3, iters_limit=3, eps=1e-9, density=2, variants=variants, tags=['two-dimensional']),
                'N=2: 1 concrete + 2 arbitrary values; recording and console listeners vs none'))
    for sd in seeds[:1 if quick else 2]:
        variants = [{'script': [('solve',)], 'overrides': None}, {'script': [('solve',)], 'overrides': ['stop', 'iter']},
                    {'script': [('solve',)], 'overrides': None, 'console': 'result'}, {'script': [('solve',)], 'overrides': None, 'console': 'custom'}]
        out.append((dict(N=1, r=2.5, seed=sd, kpre=2, nsym=2, iters_limit=3, eps=1e-9, refine=True, nm_points=1, variants=variants,
                         tags=['with-refinement']),
                    'Solve(refineSolution=True) f#%d under the minimize stub: recording and console listeners vs none' % sd))
    return out


def main():
    run = report.Runner(PID, design_ref='5/C13')
    agp.describe(run, what=('process', 'solver'))
    st = agp.setup()
    ls = st['mods'].listener
    for cn in ('Listener', 'ConsoleFullOutputListener'):
        for n, f in vars(getattr(ls, cn)).items():
            if callable(f) and not n.startswith('__') or n == '__init__':
                run.encode(f, 'iOpt.method.listener.%s.%s' % (cn, n))
    import iOpt.output_system.console.console_output as co
    for cn in ('FunctionConsoleFullOutput', 'ConsoleOutputer'):
        for n, f in vars(getattr(co, cn)).items():
            if callable(f) and not n.startswith('__') or n == '__init__':
                run.encode(f, 'iOpt.output_system.console.console_output.%s.%s' % (cn, n))
    agp.describe_stubs(run)
    run.stub('print inside iOpt.output_system.console.console_output -> recorded; symbolic numbers format as "<sym:term>" whatever the format spec')
    run.stub('scipy.optimize.minimize -> MinimizeStub (one arbitrary point inside the bounds) in the refinement family')
    jobs = [(job, p) for p in plans(run)]
    run.bound(runs='up to 5 trials: reachable prefix of 0..3 concrete values + 2 arbitrary values; batches [1],[1,1],[3],[1,2],[2,2] then Solve; '
                   'all 16 override subsets (each in at least one plan; all 16 together on a fresh run); console modes full/custom/result; N in {1,2}')
    run.not_covered('for StaticPaintListener, StaticNDPaintListener, AnimationPaintListener, AnimationNDPaintListener (matplotlib / sklearn / scipy code over '
                    'numpy arrays which the proxies cannot enter) non-interference is only compared on concrete runs (ground, not solver-decided) and the '
                    'approximation (neural network) modes and the pictures themselves are not examined; several listeners of the same kind at once; listeners that raise')
    run.parallel(jobs)
    # the painting listeners: native differential runs (ground part, see harness/c13painters.py)
    pp = os.path.join(report.VERIF, 'harness', 'c13painters.py')
    ok, out = run.run_replay(pp, timeout=600)
    lines = [l for l in (out or '').splitlines() if l.strip()]
    run.extra['painting_listeners_native_differential'] = {'script': pp, 'output': lines[-6:], 'kind': 'ground: concrete objectives, 28 listener configurations x '
                                                          'listener-free reference; NOT solver-decided'}
    if ok:
        run.confirmed('C13:painters', 'a painting listener changes the trials / the result: %s' % ' | '.join(l for l in lines if 'REPRODUCED' in l)[:600], pp)
    elif ok is None:
        run.inconclusive.append('painting-listener differential run failed: %s' % (out or '')[-300:])
    agp.confirm(run, WANT)
    run.finish('a listener overriding any subset of callbacks is notified completely and in order; recording and console listeners change neither '
               'the trials nor the result; the console report shows the solution\'s own numbers',
               vacuity=['compose', 'symbolic-values', 'listeners', 'all-16-subsets', 'two-dimensional', 'with-refinement', 'solve-with-nothing-left'])


if __name__ == '__main__':
    main()
