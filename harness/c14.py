"""C14 -- GKLS functions have the promised structure and are reproducible (DESIGN.md section 5, C14).

For each (n, k) the generator runs natively (its only inputs are (n, k): its output is DATA: minimisers M_i, radii rho_i, values f_i).
GROUND (every one of the 400 pairs; each function is constructed twice in a row): 10 minimisers inside the box, pairwise
  |M_i - M_j| >= rho_i + rho_j, |M_1 - T| = class distance, rho_1 = class radius, f_1 = -1 < f_i (i >= 2), the declared optimum is M_1,
  and the data equal the record refdata/gkls.json taken from the pinned tree (bit for bit).
FOR EVERY POINT (solver; the real CalculateDFunction on a symbolic point, one path per attraction ball + the paraboloid path):
  outside all balls the value is |x - T|^2 + f_0 (term identity); inside ball i the value is >= f_i; at the centre the value is f_i;
  on the sphere |x - M_i| = rho_i the cubic meets the paraboloid (1e-9).
Together: the function computed by the code is the D-type function of the recorded parameters at every point of the box.
Whether the pinned port equals the original C generator cannot be decided offline (no reference implementation available).
"""
import json
import math
import os
import random
import sys

import z3

sys.path.insert(0, os.path.dirname(os.path.dirname(os.path.abspath(__file__))))
from harness import bench, c10  # noqa: E402
from symex import core, report  # noqa: E402
from symex.core import Explorer, Sym  # noqa: E402

F = bench.F
PID = 'C14'
_REF = {}


def ref():
    if not _REF:
        _REF.update(json.load(open(os.path.join(report.VERIF, 'refdata', 'gkls.json')))['data'])
    return _REF


def ground_job(n, ks):
    st = bench.setup()
    mods = st['mods']

    def h(ex):
        for k in ks:
            d = {'n': n, 'k': k, 'level': 'ground'}
            insts = [mods['gkls'].GKLS(n, k), mods['gkls'].GKLS(n, k)]      # the same function twice in a row
            rec = ref()['%d_%d' % (n, k)]
            for which, p in enumerate(insts):
                m = p.function.GKLS_minima
                M = [[float(v) for v in row] for row in m.local_min[:10]]
                rho = [float(v) for v in m.rho[:10]]
                f = [float(v) for v in m.f[:10]]
                dd = dict(d, construction=which + 1)
                ex.prove(p.function.GKLS_num_minima == 10 and all(all(-1.0 <= v <= 1.0 for v in row) for row in M),
                         'C14 INBOX: the 10 minimisers lie inside the box', dd)
                ok = True
                for i in range(1, 10):
                    for j in range(i + 1, 10):
                        if math.dist(M[i], M[j]) < rho[i] + rho[j] - 1e-9:
                            ok = False
                ex.prove(ok, 'C14 DISJOINT: the attraction balls do not overlap', dd)
                ex.prove(abs(math.dist(M[1], M[0]) - p.global_dist) <= 1e-9 and abs(rho[1] - p.global_radius) <= 1e-12,
                         'C14 CLASS: the global minimiser lies at the class distance from the paraboloid vertex with the class radius', dd)
                ex.prove(f[1] == -1.0 and all(v > -1.0 for v in f[2:]), 'C14 VALUES: the global minimum is -1 and every other minimum is strictly higher', dd)
                ko = [float(v) for v in p.knownOptimum[0].point.floatVariables]
                ex.prove(ko == M[1] and float(p.knownOptimum[0].functionValues[0].value) == -1.0, 'C14 DECLARED: the declared optimum is minimiser 1 with value -1', dd)
                same = ([[float.fromhex(v) for v in row] for row in rec['local_min']] == M and [float.fromhex(v) for v in rec['rho']] == rho
                        and [float.fromhex(v) for v in rec['f']] == f)
                ex.prove(same, 'C14 REFERENCE: function (n, k) has the recorded minimisers, radii and values', dd)
        ex.tag('ground-n%d' % n)
    ex = Explorer(mode='EXACT', name='ground %d' % n)
    ex.explore(h)
    return c10.summary(ex, 'GKLS n=%d: structure and reference record of %d functions (each constructed twice)' % (n, len(ks)), {'n': n, 'level': 'ground'})


def point_job(n, k):
    st = bench.setup()
    bench.shim_on(['gkls_f'])
    mods = st['mods']

    def h(ex):
        bench.new_math()
        p = mods['gkls'].GKLS(n, k)
        fun = p.function
        m = fun.GKLS_minima
        M = [[float(v) for v in row] for row in m.local_min[:10]]
        rho = [float(v) for v in m.rho[:10]]
        f = [float(v) for v in m.f[:10]]
        d = {'n': n, 'k': k, 'level': 'point'}
        pt = []
        for c in range(n):
            x = ex.real('x%d' % c)
            ex.assume(z3.And(x.t >= -1, x.t <= 1))
            pt.append(x)
        val = bench.evaluate(p, pt)[0]
        parab = sum(((pt[c] - M[0][c]) * (pt[c] - M[0][c]) for c in range(n)), 0) + f[0]
        # which region is this path in?  (decided by asking the solver about each ball)
        region = None
        sqs = [None] + [sum(((pt[c] - M[i][c]) * (pt[c] - M[i][c]) for c in range(n)), 0) for i in range(1, 10)]
        out_all = z3.And(*[(sqs[i] > F(rho[i]) ** 2).t for i in range(1, 10)])
        r0 = ex.check(out_all)
        if str(r0) == 'unknown':
            ex.unknown_obligations.append('C14 REGION: which region a path lies in')
            return
        if str(r0) == 'unsat':
            for i in range(1, 10):
                if str(ex.check((sqs[i] <= F(rho[i]) ** 2).t)) == 'sat':
                    region = i
                    break
        if region is None:
            ex.tag('paraboloid-region')
            ex.prove((val == parab).t if isinstance(val, Sym) else False, 'C14 PARABOLOID: outside every ball the function is |x - T|^2 + f_0', d)
        else:
            i = region
            ex.tag('ball-region')
            ex.prove(z3.Not((val < f[i] - 1e-9).t) if isinstance(val, Sym) else val >= f[i] - 1e-9,
                     'C14 BASIN: inside attraction ball %d the function is nowhere below its prescribed minimum value' % i, dict(d, ball=i))
            if isinstance(val, Sym):
                sq = sum(((pt[c] - M[i][c]) * (pt[c] - M[i][c]) for c in range(n)), 0)
                on = (sq == F(rho[i]) ** 2).t
                diff = val - parab
                ex.prove(z3.Implies(on, z3.And((diff <= 1e-9).t, (diff >= -1e-9).t)),
                         'C14 SPLICE: on the sphere |x - M_i| = rho_i the cubic meets the paraboloid', dict(d, ball=i))
        if ex.paths == 0:
            for i in range(1, 10):
                v = float(bench.evaluate(p, M[i])[0])
                ex.prove(abs(v - f[i]) <= 1e-12, 'C14 CENTRE: at minimiser %d the function takes its prescribed value' % i, dict(d, ball=i))
        ex.tag('points-n%d' % n)
    ex = bench.nra('GKLS points %d %d' % (n, k), timeout_ms=120000)
    ex.explore(h)
    bench.shim_off()
    return c10.summary(ex, 'GKLS(%d,%d): every point of the box, per region' % (n, k), {'n': n, 'k': k, 'level': 'point'})


REPLAY = r'''
import os, sys, math, json, random
sys.path.insert(0, os.environ.get('IOPT_REPO', '/repo'))
from iOpt.problems.GKLS import GKLS
from iOpt.trial import Point, FunctionValue
n, k, verif = %(n)d, %(k)r, %(verif)r
ref = json.load(open(os.path.join(verif, 'refdata', 'gkls.json')))['data']
bad = []
ks = [k] if k else list(range(1, 101))
for kk in ks:
    for which in (1, 2):
        p = GKLS(n, kk); m = p.function.GKLS_minima
        M = [[float(v) for v in row] for row in m.local_min[:10]]; rho = [float(v) for v in m.rho[:10]]; f = [float(v) for v in m.f[:10]]
        rec = ref['%%d_%%d' %% (n, kk)]
        tag = 'GKLS(%%d,%%d) construction %%d' %% (n, kk, which)
        if not all(all(-1 <= v <= 1 for v in row) for row in M): bad.append('C14 INBOX: %%s has a minimiser outside the box' %% tag)
        if any(math.dist(M[i], M[j]) < rho[i] + rho[j] - 1e-9 for i in range(1, 10) for j in range(i + 1, 10)): bad.append('C14 DISJOINT: %%s has overlapping balls' %% tag)
        if abs(math.dist(M[1], M[0]) - p.global_dist) > 1e-9 or abs(rho[1] - p.global_radius) > 1e-12: bad.append('C14 CLASS: %%s' %% tag)
        if f[1] != -1.0 or not all(v > -1.0 for v in f[2:]): bad.append('C14 VALUES: %%s' %% tag)
        if [[float.fromhex(v) for v in row] for row in rec['local_min']] != M or [float.fromhex(v) for v in rec['rho']] != rho or [float.fromhex(v) for v in rec['f']] != f:
            bad.append('C14 REFERENCE: %%s differs from the recorded function' %% tag)
        fun = lambda x: float(p.Calculate(Point(list(x), []), FunctionValue()).value)
        rnd = random.Random(kk)
        pts_ = [[rnd.uniform(-1, 1) for _ in range(n)] for _ in range(300 if k else 30)]
        pts_ += [[1.0] * n, [-1.0] * n, [1.0] + [0.3] * (n - 1), [0.2] * (n - 1) + [1.0], [-1.0] + [0.1] * (n - 1)]      # faces and corners of the closed box
        for x in pts_:
            i = next((i for i in range(1, 10) if math.dist(x, M[i]) <= rho[i]), None)
            v = fun(x)
            if i is None and abs(v - (math.dist(x, M[0]) ** 2 + f[0])) > 1e-9: bad.append('C14 PARABOLOID: %%s at %%r' %% (tag, x)); break
            if i is not None and v < f[i] - 1e-9: bad.append('C14 BASIN: %%s at %%r is below the minimum of ball %%d' %% (tag, x, i)); break
        for i in range(1, 10):
            if all(-1 <= v <= 1 for v in M[i]) and abs(fun(M[i]) - f[i]) > 1e-12: bad.append('C14 CENTRE: %%s minimiser %%d' %% (tag, i)); break
    if len(bad) > 5: break
for b in bad[:8]: print('REPRODUCED', b)
sys.exit(1 if bad else 0)
'''


def main():
    run = report.Runner(PID, design_ref='5/C14')
    st = bench.setup()
    mods = st['mods']
    F_ = mods['gkls_f'].GKLSFunction
    for nme in ('CalculateDFunction', 'GKLS_norm', 'GKLS_arg_generate', 'GKLS_set_basins', 'GKLS_coincidence_check', 'SetFunctionNumber', 'GKLS_initialize_rnd'):
        run.encode(getattr(F_, nme), 'iOpt.problems.GKLS_function.gkls_function.GKLSFunction.' + nme)
    run.stub('numpy inside gkls_function -> NPShim (sqrt -> algebraic definition) for the symbolic point; the generator itself runs natively (it has no input but (n, k))')
    run.assume('refdata/gkls.json records the functions of the pinned tree; equality with the original C generator is not decidable offline')
    quick = run.quick
    rnd = random.Random(run.seed + 14)
    jobs = []
    for n in (2, 3, 4, 5):
        for a in range(1, 101, 25):
            jobs.append((ground_job, (n, list(range(a, a + 25)))))
    # quick: a fixed sample (solver cost differs between instances); thorough: every n = 2 function and a seeded n = 3 sample
    pts = [(2, k) for k in ((14, 68, 79, 84, 90, 97) if quick else range(1, 101))]
    if not quick:
        pts += [(3, k) for k in sorted(rnd.sample(range(1, 101), 10))]
    for (n, k) in pts:
        jobs.append((point_job, (n, k)))
    run.bound(ground='all 400 (n, k), each constructed twice in a row', points='%d functions (n = 2%s), every point of the box' % (len(pts), '' if quick else ', 3'))
    run.not_covered('the for-every-point clauses for n >= 4 and for the functions outside the sample (the ground clauses cover all 400); equality with the original C generator')
    run.parallel(jobs, chunks=1)
    seen = set()
    for r, c in run.candidates():
        d = c['detail']
        head = (d.get('n'), d.get('level'))
        if head in seen:
            continue
        seen.add(head)
        rp = run.write_replay('gkls', REPLAY % {'n': d.get('n'), 'k': d.get('k'), 'verif': report.VERIF})
        ok, out = run.run_replay(rp, timeout=600)
        if ok:
            run.confirmed('C14:%s:n%s' % (c['label'][:12], d.get('n')), '%s: %s' % (c['label'], (out or '').strip()[-400:]), rp)
        else:
            run.unconfirmed('%s GKLS(%s,%s)' % (c['label'], d.get('n'), d.get('k')), (out or '')[-300:])
    if run.violations:
        run.cex_unconfirmed = []
    run.finish('all 400 GKLS functions have the promised structure and equal their recorded reference; for the sampled functions the code computes the '
               'D-type function of those parameters at every point of the box',
               vacuity=['ground-n2', 'ground-n5', 'paraboloid-region', 'ball-region', 'points-n2'])


if __name__ == '__main__':
    main()
