"""C09 -- the inverse image is consistent with the image (DESIGN.md section 5, C09).

 LVL'(N)  per-level lemma in the inverse direction, from EVERY orientation state, y_rel symbolic in the current cell
          [-r, r)^N:  the sliced inverse body picks a digit k and a next state and leaves a remainder in [-r/2, r/2)^N;
          the sliced *forward* body from the same state with any d whose digit is k moves exactly to the sub-cell the
          point lies in and reaches the same next state; the accumulator adds k*2^-N(j+1).
          By induction: inverse(y) = left end of the subinterval whose cell contains y, image(inverse(y)) = centre of y's cell.
          (The forward-then-inverse direction, inverse(image(x)) = x rounded down to the grid, is C07's lemma B, re-run here.)
 N1       N = 1: both maps are the mutually inverse affine maps (symbolic bounds), GetPreimages == GetInverseImage
 BOX      __TransformD2P inverts __TransformP2D for symbolic non-symmetric boxes
 WHOLE    bounded whole-function round trips with symbolic y in the box (all paths, cell boundaries included) and
          symbolic x, N*m <= 6 / 10; GetPreimages and GetInverseImage give identical terms; repeated queries on one object.
"""
import os
import sys

import z3

sys.path.insert(0, os.path.dirname(os.path.dirname(os.path.abspath(__file__))))
from harness import evo, c07  # noqa: E402
from harness.evo import F, T, I  # noqa: E402
from symex import core, report, shims  # noqa: E402
from symex.core import Explorer  # noqa: E402


def inv_level_job(N, it0, w0):
    evo.setup()
    nexp = 2 ** N

    def h(ex):
        ev = evo.mk_evolvent(N, 3)
        it = ex.int('it')
        ex.assume(it.t == it0)
        itc = ex.concretize(it.t)
        iw = []
        for i in range(N):
            w = ex.int('iw%d' % i)
            ex.assume(z3.Or(w.t == 1, w.t == -1))
            if i == 0:
                ex.assume(w.t == w0)
            iw.append(ex.concretize(w.t))
        r = ex.real('r')
        r1 = ex.real('r1')
        xa = ex.real('xa')
        ex.assume(z3.And(r.t > 0, r1.t > 0))
        yrel = [ex.real('y%d' % i) for i in range(N)]
        for y in yrel:
            ex.assume(z3.And(y.t >= -r.t, y.t < r.t))
        ri, r1i, x2, iti, wi, iisi, yrem = evo.inv_level(ev, r, r1, xa, itc, iw, yrel)
        kc = core._const_of(z3.simplify(T(iisi)))
        if kc is None or kc.denominator != 1 or not (0 <= kc < nexp):
            ex.prove(False, "B': inverse digit is an integer in [0, 2^N)", {'N': N, 'digit': str(iisi)})
            return None
        k = int(kc)
        for i in range(N):
            ex.prove(z3.And(T(yrem[i]) >= -r.t / 2, T(yrem[i]) < r.t / 2), "B': remainder lies in the sub-cell [-r/2, r/2)", {'N': N})
        ex.prove(T(x2) == xa.t + (r1.t / nexp) * k, "B': x accumulates digit * 2^-N(j+1)", {'N': N})
        ex.prove(z3.And(T(r1i) == r1.t / nexp, T(ri) == r.t / 2), "B': scales", {'N': N})
        # forward from the same state with a d whose digit is k
        d = ex.real('d')
        x = ex.real('x')
        ex.assume(z3.And(d.t >= F(k, nexp), d.t < F(k + 1, nexp), x.t >= 0, x.t < 1))
        zero = [0.0] * N
        d2, r2, it2, iw2, iis, y2 = evo.fwd_level(ev, x, d, r, itc, iw, zero)
        for i in range(N):
            ex.prove(T(y2[i]) + T(yrem[i]) == yrel[i].t, "B': forward increment is the centre of the sub-cell the point lies in", {'N': N})
            ex.prove(I(iw2[i]) == I(wi[i]), "B': forward reaches the same sign state", {'N': N})
        ex.prove(I(it2) == I(iti), "B': forward reaches the same axis state", {'N': N})
        ex.tag('inv-level')
        return (itc, tuple(iw), k)
    ex = Explorer(mode='EXACT', name="LVL' N=%d it=%d w0=%d" % (N, it0, w0), timeout_ms=30000)
    ex.explore(h, sample_every=97)
    s = ex.summary()
    s['job'] = "inverse level lemma N=%d it=%d iw0=%+d" % (N, it0, w0)
    s['bounds'] = {'N': N, 'states': 'it=%d iw0=%+d, other signs all' % (it0, w0), 'y_rel': 'symbolic in [-r,r)^N', 'r,r1,xa,d': 'symbolic'}
    for c in s['cex']:
        c['detail'].setdefault('N', N)
    return s


def n1_job():
    def h(ex):
        a, b, x, y = ex.real('a'), ex.real('b'), ex.real('x'), ex.real('y')
        ex.assume(z3.And(a.t < b.t, x.t >= 0, x.t <= 1, y.t >= a.t, y.t <= b.t))
        variant = ex.paths % 2
        if variant == 0:
            ev = evo.mk_evolvent(1, 4, [a], [b])
        else:
            ao, bo = ex.real('a_old'), ex.real('b_old')
            ex.assume(ao.t < bo.t)
            ev = evo.mk_evolvent(1, 4, [ao], [bo])
            ev.SetBounds([a], [b])
            ex.tag('SetBounds')
        xi = ev.GetInverseImage(shims.SArr([y], 'f'))
        xp = ev.GetPreimages([y])
        ex.prove(T(xi) * (b.t - a.t) == y.t - a.t, 'N1: inverse is the affine map onto [0,1]')
        ex.prove(T(xp) == T(xi), 'N1: GetPreimages == GetInverseImage')
        yy = ev.GetImage(xi)
        ex.prove(T(yy[0]) == y.t, 'N1: image(inverse(y)) == y')
        yi = ev.GetImage(x)
        x2 = ev.GetInverseImage(yi)
        ex.prove(T(x2) == x.t, 'N1: inverse(image(x)) == x')
        ex.prove(z3.And(T(xi) >= 0, T(xi) <= 1), 'N1: inverse lands in [0,1]')
        return None
    ex = Explorer(mode='EXACT', logic='QF_NRA', name='N1', timeout_ms=60000)
    ex.explore(h, sample_every=1)
    ex.explore(h, sample_every=1)
    s = ex.summary()
    s['job'] = 'N=1 affine inverse'
    return s


def box_job(N):
    def h(ex):
        a = [ex.real('a%d' % i) for i in range(N)]
        b = [ex.real('b%d' % i) for i in range(N)]
        y = [ex.real('y%d' % i) for i in range(N)]
        for i in range(N):
            ex.assume(z3.And(a[i].t < b[i].t, y[i].t >= a[i].t, y[i].t <= b[i].t))
        if ex.paths % 2 == 0:
            ev = evo.mk_evolvent(N, 3, a, b)
        else:
            ao = [ex.real('a_old%d' % i) for i in range(N)]
            bo = [ex.real('b_old%d' % i) for i in range(N)]
            for i in range(N):
                ex.assume(ao[i].t < bo[i].t)
            ev = evo.mk_evolvent(N, 3, ao, bo)
            ev.SetBounds(a, b)
            ex.tag('SetBounds')
        ev.yValues = shims.SArr(y, 'f')
        ev._Evolvent__TransformD2P()
        cube = [T(v) for v in ev.yValues]
        for i in range(N):
            ex.prove(z3.And(cube[i] >= -F(1, 2), cube[i] <= F(1, 2)), 'BOX: box point lands in the unit cube [-1/2, 1/2]')
            ex.prove(cube[i] * (b[i].t - a[i].t) == y[i].t - (a[i].t + b[i].t) / 2, 'BOX: D2P is the affine map')
        ev._Evolvent__TransformP2D()
        for i in range(N):
            ex.prove(T(ev.yValues[i]) == y[i].t, 'BOX: P2D(D2P(y)) == y')
        return None
    ex = Explorer(mode='EXACT', logic='QF_NRA', name='BOX N=%d' % N, timeout_ms=60000)
    ex.explore(h, sample_every=1)
    ex.explore(h, sample_every=1)
    s = ex.summary()
    s['job'] = 'box <-> cube round trip N=%d' % N
    return s


def whole_inv_job(N, m, part, parts):
    """All paths of the real GetInverseImage / GetPreimages for symbolic y in the box (first coordinate split in parts)."""
    lower, upper = c07.BOXES[N]
    K = 2 ** (N * m)
    G = 2 ** m
    seen = {}

    def h(ex):
        y = [ex.real('y%d' % i) for i in range(N)]
        for i in range(N):
            lo, hi = F(lower[i]), F(upper[i])
            if i == 0:
                w = (hi - lo) / parts
                ex.assume(z3.And(y[0].t >= lo + w * part, y[0].t < lo + w * (part + 1)) if part < parts - 1
                          else z3.And(y[0].t >= lo + w * part, y[0].t <= hi))
            else:
                ex.assume(z3.And(y[i].t >= lo, y[i].t <= hi))
        ev = evo.mk_evolvent(N, m, lower, upper)
        arg = shims.SArr(list(y), 'f')
        if ex.paths % 3 == 1:
            ev.GetInverseImage([0.25 * (lower[i] + 3 * upper[i]) for i in range(N)])     # an earlier query on the same object
            ex.tag('repeated-query')
        xi = ev.GetInverseImage(arg)
        for i in range(N):
            ex.prove(T(arg[i]) == y[i].t, 'WHOLE: argument is not modified')
        xc = core._const_of(z3.simplify(T(xi)))
        if xc is None or (xc * K).denominator != 1 or not (0 <= xc < 1):
            ex.prove(False, 'WHOLE: inverse image is the left end of a subinterval', {'N': N, 'm': m, 'value': str(xi)})
            return None
        i0 = int(xc * K)
        xp = ev.GetPreimages(list(y))
        ex.prove(T(xp) == T(xi), 'WHOLE: GetPreimages == GetInverseImage', {'N': N, 'm': m})
        # centre of the cell of subinterval i0, from the real forward map at the subinterval's midpoint
        cen = ev.GetImage(float(F(2 * i0 + 1, 2 * K)))
        for c in range(N):
            half = (F(upper[c]) - F(lower[c])) / (2 * G)
            ex.prove(z3.And(y[c].t - T(cen[c]) <= half, T(cen[c]) - y[c].t <= half),
                     'WHOLE: image(inverse(y)) is the centre of the cell containing y (within half a cell per axis)',
                     {'N': N, 'm': m, 'subinterval': i0})
        seen[i0] = seen.get(i0, 0) + 1
        ex.tag('inv-path')
        return i0
    ex = Explorer(mode='EXACT', name='WHOLE-INV N=%d m=%d %d/%d' % (N, m, part, parts), timeout_ms=30000)
    ex.explore(h, sample_every=max(1, K // parts // 2))
    s = ex.summary()
    s['job'] = 'whole-function inverse N=%d m=%d y0-part %d/%d' % (N, m, part, parts)
    s['bounds'] = {'N': N, 'm': m, 'box': [lower, upper]}
    s['subintervals'] = sorted(seen)
    for c in s['cex']:
        c['detail'].setdefault('N', N)
        c['detail'].setdefault('m', m)
    return s


def whole_rt_job(N, m, part, parts):
    """inverse(image(x)) == x rounded down to the subinterval grid, x symbolic (all paths)."""
    lower, upper = c07.BOXES[N]
    K = 2 ** (N * m)

    def h(ex):
        x = ex.real('x')
        lo, hi = F(part, parts), F(part + 1, parts)
        ex.assume(z3.And(x.t >= lo, x.t < hi) if part < parts - 1 else z3.And(x.t >= lo, x.t <= 1))
        ev = evo.mk_evolvent(N, m, lower, upper)
        y = ev.GetImage(x)
        keep = list(y)
        xi = ev.GetInverseImage(y)
        for c in range(N):
            ex.prove(T(y[c]) == T(keep[c]), 'RT: the array returned by GetImage is not changed by the inverse query')
        ex.prove(z3.Or(z3.And(T(xi) <= x.t, x.t < T(xi) + F(1, K)), z3.And(x.t == 1, T(xi) == 1 - F(1, K))),
                 'RT: inverse(image(x)) is x rounded down to the grid (x=1 belongs to the last subinterval)', {'N': N, 'm': m})
        ex.tag('rt-path')
        return None
    ex = Explorer(mode='EXACT', name='RT N=%d m=%d %d/%d' % (N, m, part, parts), timeout_ms=30000)
    ex.explore(h, sample_every=max(1, K // parts // 2))
    s = ex.summary()
    s['job'] = 'round trip inverse(image(x)) N=%d m=%d x-part %d/%d' % (N, m, part, parts)
    s['bounds'] = {'N': N, 'm': m}
    for c in s['cex']:
        c['detail'].setdefault('N', N)
        c['detail'].setdefault('m', m)
    return s


N1_REPLAY = r'''
"""Native replay of an N=1 / box counterexample of C09 (values from the solver model)."""
import sys, os
from fractions import Fraction as F
sys.path.insert(0, os.environ.get('IOPT_REPO', '/repo'))
import numpy as np
from iOpt.evolvent.evolvent import Evolvent
MODEL = __MODEL__
g = lambda k: float(F(MODEL[k]))
bad = 0
def close(u, v, s): return abs(u - v) <= 1e-9 * max(1.0, s)
if 'a' in MODEL:
    a, b = g('a'), g('b')
    if 'a_old' in MODEL:
        ev = Evolvent([g('a_old')], [g('b_old')], 1, 4); ev.SetBounds([a], [b])
    else:
        ev = Evolvent([a], [b], 1, 4)
    for y in {g('y'), a, b, (a + b) / 2}:
        xi = float(ev.GetInverseImage(np.array([y]))); xp = float(ev.GetPreimages([y]))
        exp = (y - a) / (b - a)
        if not close(xi, exp, 1) or not close(xp, exp, 1):
            print('REPRODUCED C09 N=1: inverse(%r) on [%r,%r] = %r / %r, expected %r' % (y, a, b, xi, xp, exp)); bad = 1
        yy = float(ev.GetImage(xi)[0])
        if not close(yy, y, max(abs(a), abs(b))):
            print('REPRODUCED C09 N=1: image(inverse(%r)) = %r' % (y, yy)); bad = 1
else:
    N = len([k for k in MODEL if k.startswith('a') and k[1:].isdigit()])
    a = [g('a%d' % i) for i in range(N)]; b = [g('b%d' % i) for i in range(N)]
    for m in (1, 2, 3):
        if 'a_old0' in MODEL:
            e = Evolvent([g('a_old%d' % i) for i in range(N)], [g('b_old%d' % i) for i in range(N)], N, m); e.SetBounds(a, b)
        else:
            e = Evolvent(a, b, N, m)
        K = 2 ** (N * m)
        f = Evolvent(a, b, N, m)
        for i in range(K):
            x = (i + 0.5) / K
            y = f.GetImage(x)
            xi = float(e.GetInverseImage(np.array(y)))
            if F(xi) != F(i, K):
                print('REPRODUCED C09 box: inverse(image(subinterval %d)) = %r (N=%d, m=%d, box %r %r)' % (i, xi, N, m, a, b)); bad = 1; break
        if bad: break
sys.exit(bad)
'''


def main():
    run = report.Runner('C09', design_ref='5/C09')
    evo.describe(run)
    Ns = [2, 3, 4] if run.quick else [2, 3, 4, 5]
    wholes = [(2, 2), (3, 2), (2, 3)] if run.quick else [(2, 2), (3, 2), (2, 3), (2, 4), (4, 2), (3, 3), (2, 5), (5, 2)]
    run.bound(level_lemmas_N=Ns, level_lemmas='every orientation state; y_rel, r, r1, x, d symbolic: per level, hence every density',
              whole_function_N_m=wholes, n1_and_box='symbolic lower<upper, N=1..5, also after SetBounds')
    run.not_covered('floating-point rounding of the affine maps (the property says "exact up to floating-point rounding")')
    run.not_covered('N >= 6; N=5 level lemmas only in the thorough tier; box points outside [lower, upper]')
    jobs = [(n1_job, ())] + [(box_job, (N,)) for N in range(1, 6)]
    for N in Ns:
        for it0 in range(N):
            for w0 in (1, -1):
                jobs.append((inv_level_job, (N, it0, w0)))
                jobs.append((c07.level_job, (N, it0, w0)))
    for (N, m) in wholes:
        K = 2 ** (N * m)
        parts = 2 if K <= 64 else 4 if K <= 256 else 16
        parts = min(parts, 2 ** m)
        for p in range(parts):
            jobs.append((whole_inv_job, (N, m, p, parts)))
        parts = 1 if K <= 64 else 4 if K <= 256 else 16
        for p in range(parts):
            jobs.append((whole_rt_job, (N, m, p, parts)))
    res = run.parallel(jobs)
    for (N, m) in wholes:
        rs = [r for r in res if r.get('job', '').startswith('whole-function inverse N=%d m=%d ' % (N, m))]
        if any(r.get('error') for r in rs):
            continue
        got = set()
        for r in rs:
            got |= set(r.get('subintervals') or [])
        K = 2 ** (N * m)
        run.extra.setdefault('whole_inverse_subintervals_reached', {})['N=%d,m=%d' % (N, m)] = len(got)
        if len(got) != K and not any(r.get('n_cex') for r in rs):
            rp = evo.oracle_replay(run, 'invcover-N%d-m%d' % (N, m), N, m, 'C07,C09')
            ok, out = run.run_replay(rp)
            if ok:
                run.confirmed('C09:whole-inverse:N=%d,m=%d' % (N, m), 'inverse reaches %d of %d subintervals: %s' % (len(got), K, out.strip()[-300:]), rp)
            else:
                run.unconfirmed('whole inverse N=%d m=%d reaches %d of %d subintervals' % (N, m, len(got), K), (out or '')[-300:])
    groups = {}
    for r, c in run.candidates():
        d = c.get('detail', {})
        key = (c['label'].split(':')[0], d.get('N'))
        if key not in groups or (d.get('m') and not groups[key].get('detail', {}).get('m')):
            groups[key] = c
    for (kind, N), c in sorted(groups.items(), key=lambda kv: str(kv[0])):
        d = c.get('detail', {})
        lab = c['label']
        if kind in ('N1', 'BOX'):
            rp = run.write_replay('n1box', N1_REPLAY.replace('__MODEL__', repr(c['model'])))
        elif N is None:
            run.unconfirmed(lab, 'no dimension recorded')
            continue
        else:
            mmax = min(d.get('m') or 99, max(1, min(4, 13 // N)))
            rp = evo.oracle_replay(run, 'lemma-N%d' % N, N, mmax, 'C07,C09')
        ok, out = run.run_replay(rp)
        if ok:
            run.confirmed('C09:%s:N=%s' % (lab[:40], N), '%s fails; native witness: %s' % (lab, out.strip()[-400:]), rp)
        else:
            run.unconfirmed('%s (N=%s)' % (lab, N), 'counterexample %s has no native witness: %s' % (c.get('model'), (out or '')[-200:]))
    run.finish('the sliced inverse level decodes the sub-cell a point lies in and the sliced forward level maps the decoded digit back to that '
               'sub-cell centre, from every orientation state (=> inverse(y) is the left end of the subinterval whose cell contains y, at every '
               'density); N=1 maps are mutually inverse affine maps; bounded whole-function round trips in both directions',
               vacuity=['inv-level', 'inv-path', 'rt-path', 'SetBounds', 'repeated-query', 'x<1'])


if __name__ == '__main__':
    main()
