"""C04 -- the reported optimum is the best trial actually evaluated (DESIGN.md section 5, C04).

S    one real DoGlobalIteration(1) from an arbitrary invariant state (ABSTRACT): afterwards the reported best trial is an item
     of the record, holds its own objective value (read through the object graph), and no evaluated trial is smaller;
     a strictly better new trial becomes the optimum.  Equal values are inside (values are unconstrained symbols).
RUN  scenarios through the public interface (EXACT): fresh runs and reachable prefixes followed by arbitrary values, in mixed
     DoGlobalIteration batches + Solve, with a recording listener: inside every OnEndIteration, in OnMethodStop, in
     GetResults() after every step and in the Solution returned by Solve the optimum clauses are checked against the log
     of completed evaluations; another live Solver is created and iterated in between.
"""
import os
import sys

sys.path.insert(0, os.path.dirname(os.path.dirname(os.path.abspath(__file__))))
from harness import agp, agpnative as an  # noqa: E402
from symex import report  # noqa: E402

PID = 'C04'
WANT = ('C04',)


def poll_clauses(mods, ctx, want):
    """GetResults() polled between the steps: each snapshot against the evaluations completed at that time is covered by the
    listener snapshots; here: the polled object is the live solution and the final state is consistent."""
    out = []
    prob = ctx['prob']
    for snap, n in ctx['polls']:
        out += [('C04 ' + l, c) for l, c in an.optimum_clauses(snap, prob.done[:n], 'in a polled GetResults()')]
    for (kind, sol, snap, n0, n1) in ctx['returned']:
        if kind == 'keep':
            # a Solution obtained earlier still reports an evaluated point with its own value
            out += [('C04 ' + l, c) for l, c in an.optimum_clauses(an.snapshot_solution(sol), prob.done, 'in a Solution obtained earlier')]
    return out


def run_job(cfg, label):
    return agp.scenario_job(cfg, WANT, extra=poll_clauses, label=label)


def scenarios(run):
    quick = run.quick
    out = []
    base = {'overrides': ['before', 'iter', 'stop'], 'sibling': 'other'}
    for N in (1, 2):
        cfg = dict(base, N=N, r=2.5, seed=0, kpre=0, nsym=4, script=[('iter', 1), ('other', 1), ('results',), ('iter', 2), ('other', 2), ('solve',)],
                   iters_limit=3, density=2 if N > 1 else None, tags=['fresh'])
        out.append((cfg, 'fresh N=%d: iter 1, other solver, poll, iter 2, other solver, Solve (3 symbolic values)' % N))
    seeds = [(run.seed * 3 + i) % 50 for i in range(3 if quick else 8)] + [3, 4]
    for sd in seeds:
        for kpre in ((2, 4) if quick else (2, 3, 4, 5, 6)):
            cfg = dict(base, N=1, r=2.5, seed=sd, kpre=kpre, nsym=3, iters_limit=kpre + 2,
                       script=[('iter', kpre), ('keep',), ('other', 2), ('iter', 1), ('results',), ('other-solve',), ('solve',)], tags=['prefix'])
            out.append((cfg, 'prefix f#%d (%d concrete values): batches, sibling solver in between, poll, Solve' % (sd, kpre)))
    for sd in (5, 6, seeds[0]):
        # with local refinement (minimize contract stub): the returned optimum is still an evaluated point, with its own value, and nothing evaluated is smaller
        cfg = dict(base, N=1, r=2.5, seed=sd, kpre=4, nsym=2, script=[('solve',)], iters_limit=5, refine=True, nm_points=2, tags=['with-refinement'])
        out.append((cfg, 'Solve(refineSolution=True) under the minimize stub: prefix f#%d (4 concrete values) + 1 arbitrary value' % sd))
    for sd in seeds[:2]:
        cfg = dict(base, N=1, r=2.5, seed=sd, kpre=2, nsym=3, script=[('iter', 3), ('results',), ('solve',)], iters_limit=5, new_holder=True, tags=['new-value-holder'])
        out.append((cfg, 'Calculate returns a new value holder: prefix f#%d (2 concrete values) + arbitrary values' % sd))
    for sd in seeds[:3]:
        # the run ends because the accuracy criterion fires (eps symbolic): the very last trial may be the new optimum
        cfg = dict(base, N=1, r=2.5, seed=sd, kpre=2, nsym=3, script=[('solve',), ('results',)], iters_limit=5, eps='sym', tags=['stopped-by-accuracy'])
        out.append((cfg, 'Solve stopped by a symbolic eps: prefix f#%d (2 concrete values) + arbitrary values' % sd))
    for sd in seeds[:2]:
        cfg = dict(base, N=1, r=2.5, seed=sd, kpre=5, nsym=2, script=[('iter', 6), ('solve',)], iters_limit=7, box=([2e-5], [3e-5]), tags=['narrow-box'])
        out.append((cfg, 'narrow box [2e-5, 3e-5]: prefix f#%d (5 concrete values) + arbitrary values' % sd))
    return out


def main():
    run = report.Runner(PID, design_ref='5/C04')
    agp.describe(run)
    agp.describe_stubs(run)
    quick = run.quick
    plan = [(1, 1), (1, 2), (2, 2)] if quick else [(1, 1), (1, 2), (2, 2), (3, 2), (1, 3), (2, 3)]
    jobs = agp.step_jobs(WANT, plan)
    for cfg, label in scenarios(run):
        jobs.append((run_job, (cfg, label)))
    run.bound(step='%s (N, evaluated trials), all values symbolic (ties included)' % plan,
              scenarios='fresh N in {1,2} with 3 symbolic values; prefixes of 2..6 concrete values + 2 arbitrary values; a second live Solver '
                        'of another dimension is iterated between the steps')
    run.stub('scipy.optimize.minimize -> MinimizeStub in the refinement family (see C05)')
    run.not_covered('NaN objective values; the real Nelder-Mead (contract stub); floats')
    run.parallel(jobs)
    for r_ in run.jobs:
        for c_ in r_.get('cex', []):
            if (c_['detail'].get('cfg') or {}).get('refine'):
                c_['detail']['native_extra_refine'] = 200
    agp.confirm(run, WANT)
    run.finish('after every iteration, inside every listener callback, in polled and returned Solutions the best trial is an evaluated point, '
               'its value is the objective there, and no evaluated trial is smaller',
               vacuity=['recalc-pending', 'recalc-not-pending', 'new-optimum', 'optimum-kept', 'fresh', 'prefix', 'narrow-box', 'stopped-by-accuracy', 'new-value-holder', 'with-refinement'])


if __name__ == '__main__':
    main()
