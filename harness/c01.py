"""C01 -- certified eps-optimality of the result under the Lipschitz reliability condition (DESIGN.md section 5, C01).

The statement is decided as a chain of solver obligations on the real code plus a paper composition:
 PM_N  (pure arithmetic, N = 1..5)  a, b >= 0, a^N + b^N = D^N  =>  a + b <= c*D  with c^N = 2^(N-1)          [power mean]
 L1    the real CalculateGlobalR: for any interval with Hoelder length D, any inner point with value w obeying the Hoelder
       condition  w >= z_l - H*a, w >= z_r - H*b  (a + b <= c*D from PM_N), r*M >= 2*c*H and z* <= z_l, z_r:
       w >= z* - (r*M/4)*R   -- the characteristic is (up to scaling) minus a valid lower bound; both boundary forms too.
       With H = 2*sqrt(N+3)*L (evolvent Hoelder constant, C08) 2*c*H = 2^(3-1/N)*sqrt(N+3)*L = K_N*L.
 L2    the real CalculateGlobalR: an interval with D < eps, |dz| <= M*D, z >= z*, r > 1 has R < 2*eps.
 L3    = C02: the subdivided interval has the maximal characteristic (kernels + one step from the invariant), M is the
       running maximum floored at 1 (kernel K1-M), characteristics are current at decision time.
 L4    = C03: Solve stops by accuracy only right after subdividing an interval with D < eps (stop rule = guard).
 =>    for every interval i:  min f >= z* - (rM/4) R_i >= z* - (rM/4) R_t > z* - (rM/2) eps.        (composition on paper)
 TWIN  bounded end-to-end runs through the public interface (N = 1, <= 4 trials, eps symbolic): objective values are arbitrary
       reals constrained to be L-Lipschitz on the observed points; the adversary's objective is the smallest L-Lipschitz
       interpolant, whose minimum is a piecewise-linear term; M is recomputed from the observed history (floored at 1) and
       whenever the stop was by accuracy and r*M >= 2L the returned value exceeds that minimum by less than (r*M/2)*eps.
The N >= 2 statement with the grid term follows from L1-L4 and the evolvent lemmas (C07/C08) by the cited theorem
(Strongin & Sergeyev); it is not a solver query.
"""
import os
import sys

import z3

sys.path.insert(0, os.path.dirname(os.path.dirname(os.path.abspath(__file__))))
from harness import agp, agpnative as an, c02, c03  # noqa: E402
from symex import core, report  # noqa: E402
from symex.core import Explorer, Sym  # noqa: E402

PID = 'C01'
WANT = ('C01', 'C02', 'C03', 'C06', 'K1')


def pm_job(N):
    def h(ex):
        a, b, D, c = ex.real('a'), ex.real('b'), ex.real('D'), ex.real('c')
        ex.assume(z3.And(a.t >= 0, b.t >= 0, D.t >= 0, c.t > 0))
        pa, pb, pD, pc = a, b, D, c
        for _ in range(N - 1):
            pa, pb, pD, pc = pa * a, pb * b, pD * D, pc * c
        ex.assume((pa + pb == pD).t)
        ex.assume((pc == 2 ** (N - 1)).t)
        ex.prove((a + b <= c * D).t, 'C01 PM: a^N + b^N = D^N implies a + b <= 2^(1-1/N) D', {'N': N})
        ex.tag('power-mean')
    ex = Explorer(mode='EXACT', logic='QF_NRA', name='PM %d' % N, timeout_ms=120000, scratch=True)
    ex.explore(h)
    return agp.summary(ex, 'power-mean inequality N=%d' % N, {'N': N}, {'level': 'lemma', 'N': N})


def bound_clauses(mods, solver, kind, v):
    """L1 / L2 on the real CalculateGlobalR (number-type generic)."""
    SDI, Point, FV = mods.sd.SearchDataItem, mods.trial.Point, mods.trial.FunctionValue
    method = solver.method

    def item(x, z):
        it = SDI(Point([0.0], []), x, [FV()])
        if z is not None:
            it.SetZ(z)
            it.SetIndex(0)
        return it
    zl = v['zl'] if kind in ('interior', 'right-boundary') else None
    zr = v['zr'] if kind in ('interior', 'left-boundary') else None
    left, cur = item(v['xl'], zl), item(v['xr'], zr)
    cur.delta = v['D']
    method.M = [v['M']]
    method.Z = [v['Z']]
    method.CalculateGlobalR(cur, left)
    R = cur.globalR
    r = method.parameters.r
    return [('C01 L1 %s: the characteristic is minus a valid (scaled) lower bound of the objective over the interval' % kind,
             an.LE(v['Z'] - (r * v['M'] / 4) * R, v['w'])),
            ('C01 L2 %s: an interval shorter than eps with slope <= M has a characteristic below 2*eps' % kind, R)]


def bound_job(kind, which):
    st = agp.setup()
    mods = st['mods']

    def h(ex):
        r = ex.real('r')
        ex.assume(r.t > 1)
        s, prob = agp.new_solver(ex, 1, lambda ys, i: 0.0, r, 0.01, 1000)
        v = {n: ex.real(n) for n in ('xl', 'xr', 'zl', 'zr', 'M', 'Z', 'D', 'w', 'H', 'a', 'b', 'c', 'eps')}
        ex.assume(z3.And(v['xl'].t >= 0, v['xl'].t < v['xr'].t, v['xr'].t <= 1, v['M'].t >= 1, v['D'].t > 0))
        T = lambda n: v[n].t
        if which == 'L1':
            ex.assume(z3.And(T('a') >= 0, T('b') >= 0, T('H') >= 0, T('c') >= 1))
            if kind == 'interior':
                ex.assume(z3.And(T('a') + T('b') <= T('c') * T('D'), T('Z') <= T('zl'), T('Z') <= T('zr')))
                ex.assume(z3.And(T('w') >= T('zl') - T('H') * T('a'), T('w') >= T('zr') - T('H') * T('b')))
            elif kind == 'left-boundary':
                ex.assume(z3.And(T('b') <= T('D'), T('Z') <= T('zr'), T('w') >= T('zr') - T('H') * T('b')))
            else:
                ex.assume(z3.And(T('a') <= T('D'), T('Z') <= T('zl'), T('w') >= T('zl') - T('H') * T('a')))
            ex.assume((r * v['M'] >= 2 * v['c'] * v['H']).t)
            cl = bound_clauses(mods, s, kind, v)[0]
            ex.prove(cl[1].t if isinstance(cl[1], core.SymBool) else cl[1], cl[0], {'kind': kind})
        else:
            ex.assume(z3.And(T('eps') > 0, T('D') < T('eps')))
            if kind == 'interior':
                ex.assume(z3.And(T('Z') <= T('zl'), T('Z') <= T('zr')))
                ex.assume((abs(v['zr'] - v['zl']) <= v['M'] * v['D']).t)
            elif kind == 'left-boundary':
                ex.assume(T('Z') <= T('zr'))
            else:
                ex.assume(T('Z') <= T('zl'))
            label, R = bound_clauses(mods, s, kind, v)[1]
            ex.prove((R < 2 * v['eps']).t, label, {'kind': kind})
        ex.tag('%s-%s' % (which, kind))
    ex = agp.exact_explorer('%s %s' % (which, kind), timeout_ms=120000)
    ex.explore(h)
    return agp.summary(ex, '%s on the real CalculateGlobalR, %s interval' % (which, kind), {'kind': kind, 'which': which}, {'level': 'lemma', 'N': 1})


from harness.c01native import twin_clauses  # noqa: E402


def twin_job(limit, rr):
    st = agp.setup()
    mods = st['mods']
    agp.use_queue_stub(True)
    cfg = {'N': 1, 'r': rr, 'seed': 0, 'kpre': 0, 'nsym': limit + 1, 'script': [('solve',)], 'iters_limit': limit, 'eps': 'sym',
           'overrides': ['before', 'iter', 'stop'], 'box': ([0.0], [1.0])}

    def h(ex):
        del agp.PRINTS[:]
        L = ex.real('Lip')
        ex.assume(z3.And(L.t > 0, L.t < 50))
        eps = ex.real('eps')
        ex.assume(z3.And(eps.t > 0, eps.t < 1))
        seen = []

        class LipObjective(agp.Objective):
            def __call__(self, ys, k):
                z = agp.Objective.__call__(self, ys, k)
                for (y2, z2) in seen:
                    d = abs(ys[0] - y2)
                    ex.assume((abs(z - z2) <= L * d).t)
                seen.append((ys[0], z))
                return z
        obj = LipObjective(ex)
        r = agp.exact_const(rr)
        ctx = an.run_scenario(mods, cfg, obj, r, eps, prints=agp.PRINTS)
        ctx['Lip'] = L
        cl = twin_clauses(mods, ctx, WANT)
        if cl:
            ex.tag('stopped-by-accuracy-under-the-reliability-condition')
        ex.tag('twin')
        agp.prove_all(ex, cl)
        return len(an.trials_of(ctx['listener']))
    ex = agp.exact_explorer('TWIN limit=%d r=%s' % (limit, rr), timeout_ms=60000)
    ex.explore(h, sample_every=7)
    return agp.summary(ex, 'end-to-end twin: N=1, itersLimit=%d, r=%s, eps and L symbolic, L-Lipschitz values' % (limit, rr), {'limit': limit, 'r': rr},
                       {'level': 'twin', 'N': 1, 'limit': limit, 'r': rr})


TWIN_REPLAY = r'''
import os, sys
sys.path.insert(0, os.environ.get('IOPT_REPO', '/repo'))
sys.path.insert(1, %(verif)r)
from fractions import Fraction as F
from harness import agpnative as an
model, limit, rr = %(model)r, %(limit)d, %(r)r
num = lambda k, d: float(F(str(model[k]).rstrip('?'))) if k in model else d
L, eps = num('Lip', 1.0), num('eps', 0.5)
zs = [num('z%%d' %% i, 0.0) for i in range(limit + 2)]
mods = an.load()
# the adversary's objective: the smallest L-Lipschitz function through the model's values at the points the solver visits
vis = []
def obj(ys, i):
    v = zs[len(vis)] if len(vis) < len(zs) else 0.0
    vis.append((float(ys[0]), v)); return v
P = an.problem_class(mods)
s = an.make_solver(mods, P(1, [0.0], [1.0], obj), rr, eps, limit)
Lst = an.listener_class(mods)(); s.AddListener(Lst)
import io, contextlib
with contextlib.redirect_stdout(io.StringIO()):
    sol = s.Solve()
ctx = {'cfg': {'iters_limit': limit}, 'Lip': L, 'r': rr, 'eps': eps, 'listener': Lst, 'returned': [('solve', sol, None, 0, len(vis))]}
from harness import c01native
bad = [l for l, c in c01native.twin_clauses(mods, ctx, None) if not an.bool_of(c)]
lip_ok = all(abs(a[1] - b[1]) <= L * abs(a[0] - b[0]) + 1e-12 for a in vis for b in vis)
for b in bad[:2]: print('REPRODUCED' if lip_ok else 'UNUSABLE (values not Lipschitz natively)', b, 'trials', vis, 'L', L, 'eps', eps)
sys.exit(1 if (bad and lip_ok) else 0)
'''


def main():
    run = report.Runner(PID, design_ref='5/C01')
    agp.describe(run)
    agp.describe_stubs(run)
    quick = run.quick
    jobs = []
    for N in ((1, 2, 3) if quick else (1, 2, 3, 4, 5)):
        jobs.append((pm_job, (N,)))
    for kind in ('interior', 'left-boundary', 'right-boundary'):
        jobs.append((bound_job, (kind, 'L1')))
        jobs.append((bound_job, (kind, 'L2')))
    # L3 / L4: the shared lemmas of C02 and C03 (kernels vs formulas, M = running max floored at 1, selection of the maximal
    # characteristic and accuracy bookkeeping in one step from the invariant, the stop rule)
    for which in ('R-interior', 'R-left-boundary', 'R-right-boundary', 'M-interior', 'M-left-boundary'):
        jobs.append((c02.kernel_job, (which, 1)))
    jobs.append((c03.guard_job, ()))
    jobs.append((c02.queue_config_job, ()))          # L3 needs every interval to stay in the queue
    jobs += agp.step_jobs(('C02', 'C03'), [(1, 1), (1, 2)] if quick else [(1, 1), (1, 2), (2, 2), (1, 3)])
    # the lemmas speak about lengths in the metric of the solver's OWN dimension: a scenario with another live solver of a different dimension
    from harness import c06
    for cfg_, label_ in c06.scenarios(run)[:3]:
        jobs.append((c06.run_job, (cfg_, 'C06 clauses under C01: ' + label_)))
    for limit in ((3, 4) if quick else (3, 4, 5)):
        for rr in ((2.5,) if quick else (2.5, 1.3)):
            if limit == 5 and rr != 2.5:
                continue          # 5 symbolic trials at r = 1.3 did not finish within the job budget
            jobs.append((twin_job, (limit, rr)))
    run.bound(lemmas='PM_N for N <= %d; L1, L2 for all real inputs (N enters only through c^N = 2^(N-1) and the Hoelder length)' % (3 if quick else 5),
              shared='C02 kernels and C02/C03 step obligations on the listed small plans (their own checks go deeper)',
              twin='N = 1 on [0,1], itersLimit 3..%d, eps in (0,1), L in (0,50), values arbitrary subject to the Lipschitz condition on the visited points' % (4 if quick else 5))
    run.not_covered('N >= 2 end-to-end (rests on L1-L4 plus the cited evolvent theorem and C07/C08; the grid term is not a solver query); '
                    'runs longer than the twin bound (covered by the inductive lemmas); floats')
    run.assume('composition of L1-L4 into the statement is the classical argument (Strongin & Sergeyev), done on paper in this file\'s docstring')
    run.parallel(jobs)
    c02.queue_witness(run)
    # twin candidates have their own replay
    for r, c in list(run.candidates()):
        if c['detail'].get('level') == 'twin':
            d = c['detail']
            rp = run.write_replay('twin', TWIN_REPLAY % {'verif': report.VERIF, 'model': c['model'], 'limit': d['limit'], 'r': d['r']})
            ok, out = run.run_replay(rp)
            if ok:
                run.confirmed('C01:twin', '%s: %s' % (c['label'], (out or '').strip()[-300:]), rp)
            else:
                run.unconfirmed(c['label'], (out or '')[-300:])
            break
    for rr_ in run.jobs:
        rr_['cex'] = [x for x in rr_.get('cex', []) if x['detail'].get('level') not in ('twin',)]
    # pure-arithmetic lemma failures cannot be replayed against code: they make the check inconclusive
    for r, c in list(run.candidates()):
        if c['detail'].get('level') == 'lemma':
            run.unconfirmed(c['label'] + ' (lemma)', 'model: %s' % c['model'])
    for rr_ in run.jobs:
        rr_['cex'] = [x for x in rr_.get('cex', []) if x['detail'].get('level') != 'lemma']
    agp.confirm(run, WANT)
    run.finish('the chain PM_N, L1, L2 (real CalculateGlobalR), L3 (= C02), L4 (= C03) holds and the bounded end-to-end twin satisfies the eps-optimality bound',
               vacuity=['power-mean', 'L1-interior', 'L2-interior', 'L1-left-boundary', 'kernel-M-interior', 'guard', 'twin',
                        'stopped-by-accuracy-under-the-reliability-condition'])


if __name__ == '__main__':
    main()
