"""z3-free part of the C19 check: the operation driver with its reference model (numbers are symbolic proxies in the harness,
floats in the native replay)."""
import os
import sys

sys.path.insert(0, os.path.dirname(os.path.dirname(os.path.abspath(__file__))))
from harness import agpnative as an  # noqa: E402


def OR(*cs):
    r = False
    for c in cs:
        if r is False:
            r = c
        elif c is False:
            pass
        elif r is True or c is True:
            r = True
        else:
            r = r | c
    return r


def GE(a, b):
    return an.LE(b, a)


class Driver:
    """Runs one operation sequence on a real container and keeps the reference model.  `num(name, lo, hi)` supplies the
    numbers (symbolic in the harness, model values in the replay); `check(label, cond)` receives the clauses."""

    def __init__(self, mods, dual, num, check, distinct):
        self.mods, self.dual, self.num, self.check, self.distinct = mods, dual, num, check, distinct
        sd = mods.sd
        SDI, Point = sd.SearchDataItem, mods.trial.Point
        P = an.problem_class(mods)
        prob = P(1, [0.0], [1.0], lambda ys, i: 0.0)
        self.c = (sd.SearchDataDualQueue if dual else sd.SearchData)(prob)
        self.mk = lambda x: SDI(Point([x], []), x)
        left, right = self.mk(0.0), self.mk(1.0)
        for it, nm in ((left, 'L'), (right, 'R')):
            it.globalR = num('g' + nm)
            it.localR = num('l' + nm)
        self.c.InsertFirstDataItem(left, right)
        self.items = [left, right]          # model: coordinate order
        self.gq = []                        # model: entries (item, key) of the global queue
        self.lq = []
        self.n = 0

    # ---- model helpers
    def covering(self, x):
        for it in self.items:
            if an.bool_of(an.LT(x, it.GetX())):
                return it
        return None

    def structure(self, where):
        c, items = self.c, self.items
        seen = []
        for it in c:
            seen.append(it)
            if len(seen) > 50:
                break
        self.check('ORDER: traversal yields the inserted items in increasing coordinate ' + where,
                   len(seen) == len(items) and all(a is b for a, b in zip(seen, items)))
        self.check('COUNT: GetCount is the number of items ' + where, c.GetCount() == len(items))
        ok = all(items[i].GetLeft() is (items[i - 1] if i else None) and items[i].GetRight() is (items[i + 1] if i + 1 < len(items) else None)
                 for i in range(len(items)))
        self.check('LINKS: neighbour links are consistent ' + where, ok)
        for i in range(1, len(items)):
            self.check('SORTED: coordinates strictly increase along the traversal ' + where, an.LT(items[i - 1].GetX(), items[i].GetX()))
        self.check('LAST: GetLastItem is the most recently inserted item ' + where, c.GetLastItem() is self.last if hasattr(self, 'last') else True)

    def new_item(self):
        self.n += 1
        x = self.num('x%d' % self.n, 0, 1)
        self.distinct(x, [it.GetX() for it in self.items])
        it = self.mk(x)
        it.globalR = self.num('g%d' % self.n)
        it.localR = self.num('l%d' % self.n)
        return it, x

    def model_insert(self, it, right, hinted):
        i = [k for k, o in enumerate(self.items) if o is right][0]
        self.items.insert(i, it)
        self.gq.append((it, it.globalR))
        self.lq.append((it, it.localR))
        if hinted:
            self.gq.append((right, right.globalR))
            self.lq.append((right, right.localR))
        self.last = it

    def model_best(self, q, cur):
        """expected behaviour of a best request on model queue q; cur(item) = the item's current characteristic"""
        if not q:
            q[:] = [(it, cur(it)) for it in self.items]       # empty queue is refilled first
        return q

    def do(self, op, pos):
        c = self.c
        where = '(after op %d: %s)' % (pos + 1, op)
        if op in ('ins_hint', 'ins_nohint'):
            it, x = self.new_item()
            right = self.covering(x)
            if op == 'ins_hint':
                c.InsertDataItem(it, right)
            else:
                c.InsertDataItem(it)
            self.model_insert(it, right, op == 'ins_hint')
        elif op == 'clear':
            c.ClearQueue()
            self.gq, self.lq = [], []
        elif op == 'refill':
            c.RefillQueue()
            self.gq = [(it, it.globalR) for it in self.items]
            self.lq = [(it, it.localR) for it in self.items] if self.dual else self.lq
        elif op == 'setR':
            # the method re-computes a characteristic of some item (here: the first inner item, else the right end)
            tgt = self.items[1] if len(self.items) > 2 else self.items[-1]
            self.n += 1
            tgt.globalR = self.num('g%d' % self.n)
            tgt.localR = self.num('l%d' % self.n)
            if self.dual:
                # stale entries must not tie with current ones (the order among equal keys is unspecified)
                self.distinct(tgt.globalR, [k for (_, k) in self.gq])
                self.distinct(tgt.localR, [k for (_, k) in self.lq])
        elif op == 'find':
            self.n += 1
            xq = self.num('q%d' % self.n, 0, 1)
            got = c.FindDataItemByOneDimensionalPoint(xq)
            exp = self.covering(xq)
            self.check('FIND: covering-interval lookup returns the first item strictly to the right of the query ' + where, got is exp)
        elif op in ('best', 'best_local'):
            loc = op == 'best_local'
            q = self.lq if loc else self.gq
            cur = (lambda it: it.localR) if loc else (lambda it: it.globalR)
            if not q:
                q[:] = [(it, cur(it)) for it in self.items]
                if self.dual and not loc:
                    self.lq = [(it, it.localR) for it in self.items]
                if self.dual and loc:
                    self.gq = [(it, it.globalR) for it in self.items]
            got = c.GetDataItemWithMaxLocalR() if loc else c.GetDataItemWithMaxGlobalR()
            if not self.dual:
                mine = [k for (it, k) in q if it is got]
                self.check('BEST: the returned item is queued ' + where, len(mine) >= 1)
                if mine:
                    cond = OR(*[an.AND(*[GE(k, k2) for (_, k2) in q]) for k in mine])
                    self.check('BEST: the returned item has a maximal queued characteristic ' + where, cond)
                    # remove its largest entry from the model
                    bi = None
                    for j, (it, k) in enumerate(q):
                        if it is got and (bi is None or an.bool_of(an.LT(q[bi][1], k))):
                            bi = j
                    q.pop(bi)
            else:
                live = [(it, k) for (it, k) in q if an.bool_of(an.EQ(k, cur(it)))]
                if not live:
                    # every entry is stale: all are discarded, the queues are refilled with current characteristics
                    self.gq = [(it, it.globalR) for it in self.items]
                    self.lq = [(it, it.localR) for it in self.items]
                    q = self.lq if loc else self.gq
                    live = list(q)
                mine = [k for (it, k) in live if it is got]
                self.check('BEST-DUAL: the returned item has a queued entry whose characteristic is still current ' + where, len(mine) >= 1)
                if mine:
                    k = cur(got)
                    self.check('BEST-DUAL: its characteristic is maximal among the entries that are still current ' + where,
                               an.AND(*[GE(k, k2) for (_, k2) in live]))
                    # model: the returned entry and every stale entry above it are gone
                    rest = []
                    removed = False
                    for (it, k2) in q:
                        stale = not an.bool_of(an.EQ(k2, cur(it)))
                        if it is got and not stale and not removed:
                            removed = True
                            continue
                        if stale and an.bool_of(an.LT(k, k2)):
                            continue
                        rest.append((it, k2))
                    q[:] = rest
        self.structure(where)



class _Key:
    def __init__(self, v):
        self.v = v

    def __lt__(self, o):
        return an.bool_of(an.LT(self.v, o.v))


def bounded_clauses(mods, maxlen, keys):
    q = mods.sd.CharacteristicsQueue(maxlen)
    objs = []
    n = len(keys)
    for i in range(n):
        o = mods.sd.SearchDataItem(mods.trial.Point([0.0], []), float(i))
        q.Insert(keys[i], o)
        objs.append(o)
    out = [('BOUNDED: the queue holds min(n, maxlen) entries', q.GetLen() == min(n, maxlen) and q.GetMaxLen() == maxlen)]
    popped = []
    while not q.IsEmpty():
        popped.append(q.GetBestItem())
    srt = sorted(range(n), key=lambda i: _Key(keys[i]), reverse=True)
    top = [keys[i] for i in srt[:maxlen]]
    out.append(('BOUNDED: as many entries come out as were retained', len(popped) == len(top)))
    for (it, k), e in zip(popped, top):
        out.append(('BOUNDED: a bounded queue retains the highest priorities and returns them in decreasing order', an.EQ(k, e)))
        own = [j for j, o in enumerate(objs) if o is it]
        out.append(('BOUNDED: every entry comes out with the priority it was inserted with', bool(own) and an.EQ(k, keys[own[0]])))
    return out


def replay(mods, a, model):
    bad = []

    def num(name, lo=None, hi=None):
        v = model.get(name)
        return 0.5 if v is None else float(v)

    def distinct(v, others):
        pass

    def check(label, cond):
        if not an.bool_of(cond) and label.split(' (after')[0] not in [b.split(' (after')[0] for b in bad]:
            bad.append('C19 ' + label)
    try:
        if a['level'] == 'c19':
            d = Driver(mods, a['dual'], num, check, distinct)
            for pos, op in enumerate(a['ops']):
                d.do(op, pos)
        else:
            keys = [num('k%d' % i) for i in range(a['n'])]
            for l, c in bounded_clauses(mods, a['maxlen'], keys):
                check(l, c)
    except Exception as e:
        bad.append('C19 EXC: the container raised %s: %s' % (type(e).__name__, e))
    return bad
