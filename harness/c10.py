"""C10 -- the declared optimum of every benchmark instance is its true global minimum (DESIGN.md section 5, C10).

Per instance the REAL Problem.Calculate is executed on a symbolic point of the box; the solver then decides
 (a) |f(x*) - f*| <= 1e-4                     (ground: the real function natively at the declared point),
 (b) no x in the box with f(x) < f* - 2e-3*max(1,|f*|)                                  (must be `unsat`),
 (c) no x in the box farther than 0.5%% of the box side from x* (sup norm) with f(x) < f(x*)   (must be `unsat`), hence a global
     minimiser lies within 0.5%% of x*.
Encodings: Hill -> exact univariate rational function of t = tan(pi x) (Chebyshev-type recurrences), x = 1/2 separately;
Shekel -> univariate rational function; GKLS -> one path per attraction ball + the paraboloid path, norms as algebraic
numbers (nu^2 = |x-M|^2); Rastrigin / XSquared (N = 1..5) -> cos relaxed to an arbitrary number of [-1,1] (sound);
Grishagin, Shekel4, StronginC3 -> clause (a) only ((b),(c) out of reach: DESIGN section 7).
Every encoding is validated on pinned points against the native evaluation before it is used.
"""
import math
import os
import random
import sys

import z3

sys.path.insert(0, os.path.dirname(os.path.dirname(os.path.abspath(__file__))))
from harness import bench  # noqa: E402
from symex import core, report, shims  # noqa: E402
from symex.core import Explorer, Sym  # noqa: E402

F = bench.F
PID = 'C10'
TOL_A = 1e-4


def tol_b(fs):
    return 2e-3 * max(1.0, abs(fs))


def subst_value(val, var, x):
    """exact value (Fraction) of a rational-function Sym at var := x"""
    xv = z3.RealVal(F(x))
    n = z3.simplify(z3.substitute(core.to_real(val.t), (var, xv)))
    d = z3.simplify(z3.substitute(val.d, (var, xv))) if val.d is not None else z3.RealVal(1)
    cn, cd = core._const_of(n), core._const_of(d)
    if cn is None or cd is None or cd == 0:
        return None
    return cn / cd


def summary(ex, job, detail, extra=None):
    s = ex.summary()
    s['job'] = job
    for c in s['cex']:
        c['detail'].update(detail)
    s.update(extra or {})
    return s


def hill_job(fn):
    st = bench.setup()
    bench.shim_on(['hill'])
    mods = st['mods']
    info = {}

    def h(ex):
        ms = bench.new_math(base=2, K=13)
        p = mods['hill'].Hill(fn)
        xs, fs = bench.known(p)
        x = ex.real('x')
        val, out, fv, pt = bench.evaluate(p, [x])
        t = ms.angles.tvar(x).t
        ex.inputs['t'] = t
        # validation of the encoding on pinned points (native float evaluation vs the rational function)
        for x0 in (0.1234, 0.77, xs[0] if abs(xs[0] - 0.5) > 1e-6 else 0.31):
            nat = bench.evaluate(p, [x0])[0]
            enc = subst_value(val, t, math.tan(math.pi * x0))
            ex.prove(enc is not None and abs(float(enc) - nat) <= 1e-7 * max(1.0, abs(nat)), 'C10 VALIDATE: Hill encoding agrees with the native evaluation')
        fa = bench.evaluate(p, [xs[0]])[0]
        ex.prove(abs(fa - fs) <= TOL_A, 'C10 A: the objective at the declared point equals the declared value within 1e-4', {'x': xs, 'f_declared': fs, 'f': fa})
        ex.prove(z3.Not((val < fs - tol_b(fs)).t), 'C10 B: no point of the box is lower than the declared value by more than the tolerance')
        fh = bench.evaluate(p, [0.5])[0]
        ex.prove(fh >= fs - tol_b(fs), 'C10 B: no point of the box is lower than the declared value by more than the tolerance', {'x': [0.5]})
        # (c): outside the neighbourhood nothing is lower than f at the declared point
        d = 0.005
        fstar = subst_value(val, t, math.tan(math.pi * xs[0])) if abs(xs[0] - 0.5) > 1e-9 else F(fh)
        outs = []
        if xs[0] - d > 0:
            outs.append(bench.x_range_to_t(t, 0.0, xs[0] - d))
        if xs[0] + d < 1:
            outs.append(bench.x_range_to_t(t, xs[0] + d, 1.0))
        ex.prove(z3.Not(z3.And(z3.Or(*outs), (val < z3.RealVal(fstar)).t)) if not isinstance(val < 1, bool) else True,
                 'C10 C: no point farther than 0.5% of the box side from the declared point is lower than the declared point', {'fstar': float(fstar)})
        if abs(0.5 - xs[0]) > d:
            ex.prove(fh >= float(fstar) - 1e-12, 'C10 C: no point farther than 0.5% of the box side from the declared point is lower than the declared point', {'x': [0.5]})
        ex.tag('hill')
        info['x'] = xs
    ex = bench.nra('HILL %d' % fn)
    ex.explore(h)
    bench.shim_off()
    return summary(ex, 'Hill(%d)' % fn, {'family': 'hill', 'fn': fn})


def shekel_job(fn):
    st = bench.setup()
    bench.shim_on(['shekel'])
    mods = st['mods']

    def h(ex):
        bench.new_math()
        p = mods['shekel'].Shekel(fn)
        xs, fs = bench.known(p)
        lo, up = float(p.lowerBoundOfFloatVariables[0]), float(p.upperBoundOfFloatVariables[0])
        x = ex.real('x')
        ex.assume(z3.And(x.t >= F(lo), x.t <= F(up)))
        val, out, fv, pt = bench.evaluate(p, [x])
        for x0 in (1.234, 7.7, xs[0]):
            nat = bench.evaluate(p, [x0])[0]
            enc = subst_value(val, x.t, x0)
            ex.prove(enc is not None and abs(float(enc) - nat) <= 1e-7 * max(1.0, abs(nat)), 'C10 VALIDATE: Shekel encoding agrees with the native evaluation')
        fa = bench.evaluate(p, [xs[0]])[0]
        ex.prove(abs(fa - fs) <= TOL_A, 'C10 A: the objective at the declared point equals the declared value within 1e-4', {'x': xs, 'f_declared': fs, 'f': fa})
        ex.prove(z3.Not((val < fs - tol_b(fs)).t), 'C10 B: no point of the box is lower than the declared value by more than the tolerance')
        d = 0.005 * (up - lo)
        fstar = subst_value(val, x.t, xs[0])
        ex.prove(z3.Not(z3.And(z3.Or(x.t < F(xs[0] - d), x.t > F(xs[0] + d)), (val < z3.RealVal(fstar)).t)),
                 'C10 C: no point farther than 0.5% of the box side from the declared point is lower than the declared point', {'fstar': float(fstar)})
        ex.tag('shekel')
    ex = bench.nra('SHEKEL %d' % fn)
    ex.explore(h)
    bench.shim_off()
    return summary(ex, 'Shekel(%d)' % fn, {'family': 'shekel', 'fn': fn})


def relaxed_job(family, N):
    """Rastrigin / XSquared: cos relaxed to [-1, 1]."""
    st = bench.setup()
    bench.shim_on([family])
    mods = st['mods']

    def h(ex):
        bench.new_math(trig_mode='interval')
        p = mods[family].Rastrigin(N) if family == 'rastrigin' else mods[family].XSquared(N)
        xs, fs = bench.known(p)
        lo = [float(v) for v in p.lowerBoundOfFloatVariables]
        up = [float(v) for v in p.upperBoundOfFloatVariables]
        pt = []
        for c in range(N):
            x = ex.real('x%d' % c)
            ex.assume(z3.And(x.t >= F(lo[c]), x.t <= F(up[c])))
            pt.append(x)
        val = bench.evaluate(p, pt)[0]
        fa = bench.evaluate(p, xs)[0]
        ex.prove(abs(fa - fs) <= TOL_A, 'C10 A: the objective at the declared point equals the declared value within 1e-4', {'x': xs, 'f_declared': fs, 'f': fa})
        ex.prove(z3.Not((val < fs - tol_b(fs)).t), 'C10 B: no point of the box is lower than the declared value by more than the tolerance')
        far = z3.Or(*[z3.Or(pt[c].t < F(xs[c] - 0.005 * (up[c] - lo[c])), pt[c].t > F(xs[c] + 0.005 * (up[c] - lo[c]))) for c in range(N)])
        ex.prove(z3.Not(z3.And(far, (val < F(fa)).t)),
                 'C10 C: no point farther than 0.5% of the box side from the declared point is lower than the declared point', {'fstar': fa})
        ex.tag(family)
    ex = bench.nra('%s %d' % (family, N))
    ex.explore(h)
    bench.shim_off()
    return summary(ex, '%s(%d)' % (family, N), {'family': family, 'fn': N})


def gkls_job(n, k):
    st = bench.setup()
    bench.shim_on(['gkls_f'])
    mods = st['mods']

    info = {}

    def h(ex):
        bench.new_math()
        p = mods['gkls'].GKLS(n, k)
        xs, fs = bench.known(p)
        pt = []
        for c in range(n):
            x = ex.real('x%d' % c)
            ex.assume(z3.And(x.t >= -1, x.t <= 1))
            pt.append(x)
        val = bench.evaluate(p, pt)[0]
        if ex.paths == 0 and not ex.dead:
            fa = bench.evaluate(p, xs)[0]
            ex.prove(abs(fa - fs) <= TOL_A, 'C10 A: the objective at the declared point equals the declared value within 1e-4', {'x': xs, 'f_declared': fs, 'f': fa})
        labelB = 'C10 B: no point of the box is lower than the declared value by more than the tolerance'
        if isinstance(val, Sym):
            rb = ex.check((val < fs - tol_b(fs)).t)
            if str(rb) == 'unknown':
                info.setdefault('undecided', []).append((n, k))     # listed as undecided, excluded from the claim
            else:
                ex.prove(z3.Not((val < fs - tol_b(fs)).t), labelB)
        else:
            ex.prove(val >= fs - tol_b(fs), labelB)
        far = z3.Or(*[z3.Or(pt[c].t < F(xs[c] - 0.01), pt[c].t > F(xs[c] + 0.01)) for c in range(n)])
        labelC = 'C10 C: no point farther than 0.5% of the box side from the declared point is lower than the declared point'
        if isinstance(val, Sym):
            r = ex.check(z3.And(far, (val < F(fs)).t))
            if str(r) == 'unknown':
                # tangency at the minimiser makes the exact comparison hard for some instances: decide it with a slack of 1e-6 in VALUE and say so
                r2 = ex.check(z3.And(far, (val < F(fs) - F(1, 10 ** 6)).t))
                if str(r2) == 'unsat':
                    info.setdefault('slack', []).append((n, k))
                    ex.obligations += 1
                    ex.discharged += 1
                elif str(r2) == 'sat':
                    ex.prove(z3.Not(z3.And(far, (val < F(fs) - F(1, 10 ** 6)).t)), labelC, {'fstar': fs})
                else:
                    # neither form decided within the time limit: the instance is LISTED as undecided for clause (c) and excluded from the claim
                    info.setdefault('undecided', []).append((n, k))
            else:
                ex.prove(z3.Not(z3.And(far, (val < F(fs)).t)), labelC, {'fstar': fs})
        ex.tag('gkls')
    ex = bench.nra('GKLS %d %d' % (n, k), timeout_ms=240000)
    ex.explore(h)
    bench.shim_off()
    return summary(ex, 'GKLS(%d,%d)' % (n, k), {'family': 'gkls', 'fn': (n, k)}, {'clause_c_decided_with_value_slack_1e-6': info.get('slack', []), 'clause_c_undecided': info.get('undecided', [])})


def ground_series_job(family, fns):
    """clause (a) for a whole series of instances that are ALL constructed first and only then evaluated (instances must not share state)"""
    st = bench.setup()
    mods = st['mods']

    def mk(fn):
        if family == 'grishagin':
            return mods['grishagin'].Grishagin(fn)
        if family == 'gkls':
            return mods['gkls'].GKLS(*fn)
        if family == 'hill':
            return mods['hill'].Hill(fn)
        if family == 'shekel':
            return mods['shekel'].Shekel(fn)
        if family == 'shekel4':
            return mods['shekel4'].Shekel4(fn)
        return mods['stronginC3'].StronginC3()

    def h(ex):
        ps = [(fn, mk(fn)) for fn in fns]
        for fn, p in ps:
            xs, fs = bench.known(p)
            fa = float(bench.evaluate(p, xs)[0])
            lo = [float(v) for v in p.lowerBoundOfFloatVariables]
            up = [float(v) for v in p.upperBoundOfFloatVariables]
            ex.prove(abs(fa - fs) <= TOL_A, 'C10 A: the objective at the declared point equals the declared value within 1e-4',
                     {'x': xs, 'f_declared': fs, 'f': fa, 'fn': fn, 'series': list(fns)[:12]})
            ex.prove(all(a <= v <= b for a, v, b in zip(lo, xs, up)), 'C10 A: the declared point lies in the box', {'fn': fn, 'x': xs})
        ex.tag('ground-' + family)
    ex = Explorer(mode='EXACT', name='%s series' % family)
    ex.explore(h)
    return summary(ex, '%s: clause (a) for %d instances constructed together' % (family, len(fns)), {'family': family})


def scan_job(family, fns, G):
    """Families whose clauses (b), (c) the solvers cannot decide (Grishagin, Shekel4): a NATIVE grid scan that can only FIND a lower point (a concrete
    counterexample to clause (b)); finding none proves nothing and is reported as 'not decided'.  Bug hunting only -- labelled as such."""
    st = bench.setup()
    mods = st['mods']
    import itertools

    def h(ex):
        for fn in fns:
            p = mods['grishagin'].Grishagin(fn) if family == 'grishagin' else mods['shekel4'].Shekel4(fn)
            xs, fs = bench.known(p)
            lo = [float(v) for v in p.lowerBoundOfFloatVariables]
            up = [float(v) for v in p.upperBoundOfFloatVariables]
            best, arg = None, None
            axes = [[lo[c] + (up[c] - lo[c]) * (i + 0.5) / G for i in range(G)] for c in range(len(lo))]
            for pt in itertools.product(*axes):
                v = float(bench.evaluate(p, list(pt))[0])
                if best is None or v < best:
                    best, arg = v, list(pt)
            ex.prove(best >= fs - tol_b(fs), 'C10 B-SCAN: a native grid scan finds no point lower than the declared value by more than the tolerance (bug hunting only)',
                     {'fn': fn, 'family': family, 'grid_min': best, 'at': arg, 'f_declared': fs})
        ex.tag('scan-' + family)
    ex = Explorer(mode='EXACT', name='scan %s' % family)
    ex.explore(h)
    return summary(ex, '%s: native grid scan %d^N of %d instances (bug hunting only, proves nothing)' % (family, G, len(fns)), {'family': family})


def ground_job(family, fn):
    """clause (a) only"""
    st = bench.setup()
    mods = st['mods']

    def h(ex):
        if family == 'grishagin':
            p = mods['grishagin'].Grishagin(fn)
        elif family == 'shekel4':
            p = mods['shekel4'].Shekel4(fn)
        else:
            p = mods['stronginC3'].StronginC3()
        xs, fs = bench.known(p)
        fa = bench.evaluate(p, xs)[0]
        ex.prove(abs(float(fa) - fs) <= TOL_A, 'C10 A: the objective at the declared point equals the declared value within 1e-4', {'x': xs, 'f_declared': fs, 'f': float(fa)})
        lo = [float(v) for v in p.lowerBoundOfFloatVariables]
        up = [float(v) for v in p.upperBoundOfFloatVariables]
        ex.prove(all(a <= v <= b for a, v, b in zip(lo, xs, up)), 'C10 A: the declared point lies in the box')
        ex.tag('ground-' + family)
    ex = Explorer(mode='EXACT', name='%s %s' % (family, fn))
    ex.explore(h)
    return summary(ex, '%s(%s) clause (a)' % (family, fn), {'family': family, 'fn': fn})


REPLAY = r'''
import os, sys, math
sys.path.insert(0, os.environ.get('IOPT_REPO', '/repo'))
from fractions import Fraction as F
from iOpt.trial import Point, FunctionValue
family, fn, model, label = %(family)r, %(fn)r, %(model)r, %(label)r
def num(s):
    s = str(s).rstrip('?')
    try: return float(F(s))
    except Exception: return None
if family == 'hill':
    from iOpt.problems.hill import Hill as P; p = P(fn)
elif family == 'shekel':
    from iOpt.problems.shekel import Shekel as P; p = P(fn)
elif family == 'rastrigin':
    from iOpt.problems.rastrigin import Rastrigin as P; p = P(fn)
elif family == 'xsquared':
    from iOpt.problems.xsquared import XSquared as P; p = P(fn)
elif family == 'gkls':
    from iOpt.problems.GKLS import GKLS as P; p = P(*fn)
elif family == 'grishagin':
    from iOpt.problems.grishagin import Grishagin as P; p = P(fn)
elif family == 'shekel4':
    from iOpt.problems.shekel4 import Shekel4 as P; p = P(fn)
else:
    from iOpt.problems.stronginC3 import StronginC3 as P; p = P()
series = %(series)r
def same(q):
    return (list(q) == list(fn)) if isinstance(q, (list, tuple)) else q == fn
if series:
    keep = [(q, P(*q) if isinstance(q, (list, tuple)) else P(q)) for q in series]     # the other members of the series stay alive
    m_ = [o for q, o in keep if same(q)]
    p = m_[0] if m_ else (P(*fn) if isinstance(fn, (list, tuple)) else P(fn))
ko = p.knownOptimum[0]
xs = [float(v) for v in ko.point.floatVariables]; fs = float(ko.functionValues[0].value)
lo = [float(v) for v in p.lowerBoundOfFloatVariables]; up = [float(v) for v in p.upperBoundOfFloatVariables]
f = lambda pt: float(p.Calculate(Point(list(pt), []), FunctionValue()).value)
bad = []
tolb = 2e-3 * max(1.0, abs(fs))
if abs(f(xs) - fs) > 1e-4: bad.append('C10 A: f(x*) = %%r but the declared optimum value is %%r' %% (f(xs), fs))
if not all(a <= v <= b for a, v, b in zip(lo, xs, up)): bad.append('C10 A: the declared point %%r is outside the box' %% xs)
# the solver's point
pt = None
if family == 'hill' and 't' in model and num(model['t']) is not None:
    x = (math.atan(num(model['t'])) / math.pi) %% 1.0; pt = [x]
elif family in ('shekel',) and num(model.get('x', '')) is not None:
    pt = [num(model['x'])]
elif all(num(model.get('x%%d' %% c, '')) is not None for c in range(len(xs))):
    pt = [num(model['x%%d' %% c]) for c in range(len(xs))]
cands = [pt] if pt else []
if %(at)r: cands.append(%(at)r)
# plus a coarse native scan around the solver's point and over the box (confirmation only)
import random
rnd = random.Random(1)
for _ in range(4000):
    cands.append([rnd.uniform(a, b) for a, b in zip(lo, up)])
if pt:
    for _ in range(2000):
        cands.append([min(b, max(a, v + rnd.gauss(0, 0.01 * (b - a)))) for a, v, b in zip(lo, pt, up)])
fx = f(xs)
for c in cands:
    v = f(c)
    if v < fs - tolb:
        bad.append('C10 B: f(%%r) = %%r is lower than the declared optimum value %%r by more than %%g' %% (c, v, fs, tolb)); break
for c in cands:
    if max(abs(a - b) / (u - l) for a, b, l, u in zip(c, xs, lo, up)) > 0.005 and f(c) < fx - 1e-9 * max(1, abs(fx)):
        # a lower point far from the declared one: is there NO global minimiser near the declared point?  refine natively
        best = min(cands, key=f)
        if max(abs(a - b) / (u - l) for a, b, l, u in zip(best, xs, lo, up)) > 0.005 and f(best) < fx - 1e-7 * max(1, abs(fx)):
            bad.append('C10 C: f(%%r) = %%r < f(x*) = %%r although the point is farther than 0.5%%%% of the box side from x* = %%r' %% (best, f(best), fx, xs))
        break
for b in bad: print('REPRODUCED', b)
sys.exit(1 if bad else 0)
'''


def main():
    run = report.Runner(PID, design_ref='5/C10', level='proof')
    st = bench.setup()
    mods = st['mods']
    run.encode(mods['hill'].Hill.Calculate, 'iOpt.problems.hill.Hill.Calculate')
    run.encode(mods['shekel'].Shekel.Calculate, 'iOpt.problems.shekel.Shekel.Calculate')
    run.encode(mods['rastrigin'].Rastrigin.Calculate, 'iOpt.problems.rastrigin.Rastrigin.Calculate')
    run.encode(mods['xsquared'].XSquared.Calculate, 'iOpt.problems.xsquared.XSquared.Calculate')
    run.encode(mods['gkls'].GKLS.Calculate, 'iOpt.problems.GKLS.GKLS.Calculate')
    run.encode(mods['gkls_f'].GKLSFunction.CalculateDFunction, 'iOpt.problems.GKLS_function.gkls_function.GKLSFunction.CalculateDFunction')
    run.encode(mods['gkls_f'].GKLSFunction.GKLS_norm, 'iOpt.problems.GKLS_function.gkls_function.GKLSFunction.GKLS_norm')
    run.stub('math.sin / math.cos of k*pi*x -> exact rational functions of t = tan(pi x) with one shared denominator (1+t^2)^13 (Hill); '
             'relaxed to an arbitrary number in [-1,1] (Rastrigin)')
    run.stub('numpy inside the problem modules -> NPShim (dtype-tagged lists, sqrt -> algebraic definition nu >= 0, nu^2 = a)')
    run.assume('the float evaluation of the real code differs from the exact rational term by far less than the tolerances (validated on pinned points: <= 1e-7 relative)')
    run.assume('tan(pi x) of the neighbourhood end points is computed in floats (relative error 1e-16, against a neighbourhood of 0.005)')
    quick = run.quick
    rnd = random.Random(run.seed)
    jobs = []
    hills = list(range(1000))            # 0.03 s per instance: every member in both tiers
    sheks = sorted(rnd.sample(range(1000), 80)) if quick else list(range(1000))
    for fn in hills:
        jobs.append((hill_job, (fn,)))
    for fn in sheks:
        jobs.append((shekel_job, (fn,)))
    for N in (1, 2, 3, 4, 5):
        jobs.append((relaxed_job, ('rastrigin', N)))
        jobs.append((relaxed_job, ('xsquared', N)))
    # quick: a fixed sample (solver cost differs a lot between instances); thorough: every n = 2 function and a seeded n = 3 sample
    gk = [(2, k) for k in ((9, 25, 32, 42, 43, 64, 91, 94) if quick else range(1, 101))]
    if not quick:
        gk += [(3, k) for k in sorted(rnd.sample(range(1, 101), 6))]
    for (n, k) in gk:
        jobs.append((gkls_job, (n, k)))
    # clause (a) and "declared point in the box" for EVERY member of every family (ground facts; the instances of a series are
    # all constructed before the first one is evaluated)
    jobs.append((ground_series_job, ('grishagin', list(range(1, 101)))))
    for n in (2, 3, 4, 5):
        jobs.append((ground_series_job, ('gkls', [(n, k) for k in range(1, 101)])))
    for a in range(0, 1000, 250):
        jobs.append((ground_series_job, ('hill', list(range(a, a + 250)))))
        jobs.append((ground_series_job, ('shekel', list(range(a, a + 250)))))
    jobs.append((ground_series_job, ('shekel4', [1, 2, 3])))
    for a in range(1, 101, 10):
        jobs.append((scan_job, ('grishagin', list(range(a, a + 10)), 40 if quick else 140)))
    jobs.append((scan_job, ('shekel4', [1, 2, 3], 9 if quick else 14)))
    jobs.append((ground_job, ('stronginC3', 0)))
    run.bound(instances='Hill %d (all), Shekel %d (seeded sample in the quick tier, all 1000 in the thorough tier), Rastrigin and XSquared N = 1..5, '
                        'GKLS %d instances (clauses b, c), Grishagin / Shekel4 / StronginC3 clause (a) only' % (len(hills), len(sheks), len(gk)),
              points='every point of the continuous box (solver-decided), except Hill x = 1/2 (evaluated natively)')
    run.not_covered('clauses (b), (c) for Grishagin, Shekel4, StronginC3 are NOT decided (out of reach of the solvers here); for Grishagin and Shekel4 a native grid scan is run '
                    'that can only find concrete counterexamples to (b) -- bug hunting, it supports no claim; Rastrigin / XSquared dimensions above 5; '
                    'GKLS instances outside the sample in clauses (b), (c)')
    run.parallel(jobs, chunks=8)
    seen = set()
    for r, c in run.candidates():
        d = c['detail']
        head = (d.get('family'), str(d.get('fn')), c['label'][:6])
        if head in seen or len(seen) > 30:
            continue
        seen.add(head)
        rp = run.write_replay('%s' % d.get('family'), REPLAY % {'family': d.get('family'), 'fn': d.get('fn'), 'model': c['model'], 'label': c['label'], 'series': d.get('series'), 'at': d.get('at')})
        ok, out = run.run_replay(rp)
        if ok:
            run.confirmed('C10:%s:%s:%s' % (d.get('family'), d.get('fn'), c['label'][:5]), '%s(%s): %s' % (d.get('family'), d.get('fn'), (out or '').strip()[-300:]), rp)
        else:
            run.unconfirmed('%s %s(%s)' % (c['label'], d.get('family'), d.get('fn')), (out or '')[-300:])
    slack = sorted(set(tuple(x) for r_ in run.jobs for x in (r_.get('clause_c_decided_with_value_slack_1e-6') or [])))
    run.extra['gkls_clause_c_decided_with_value_slack_1e-6'] = [list(x) for x in slack]
    und = sorted(set(tuple(x) for r_ in run.jobs for x in (r_.get('clause_c_undecided') or [])))
    run.extra['gkls_clause_c_undecided_excluded_from_the_claim'] = [list(x) for x in und]
    if len(und) > max(1, len(gk) // 4):
        run.inconclusive.append('clauses (b)/(c) undecided for %d of %d GKLS instances' % (len(und), len(gk)))
    for x in und:
        print('NOTE: GKLS%r clause (b) or (c) undecided by the solver within the time limit (excluded from the claim, listed in the evidence)' % (x,))
    run.finish('for every listed instance: f(x*) = f* within 1e-4, no point of the box lower than f* - 2e-3*max(1,|f*|), and no point farther than '
               '0.5% of the box side from x* lower than f(x*)',
               vacuity=['hill', 'shekel', 'rastrigin', 'xsquared', 'gkls', 'ground-grishagin', 'ground-shekel4', 'ground-stronginC3', 'ground-gkls', 'ground-hill'])


def ground_job_gkls(n, k):
    st = bench.setup()
    mods = st['mods']

    def h(ex):
        p = mods['gkls'].GKLS(n, k)
        xs, fs = bench.known(p)
        fa = bench.evaluate(p, xs)[0]
        ex.prove(abs(float(fa) - fs) <= TOL_A, 'C10 A: the objective at the declared point equals the declared value within 1e-4', {'x': xs, 'f_declared': fs, 'f': float(fa)})
        ex.prove(all(-1 <= v <= 1 for v in xs), 'C10 A: the declared point lies in the box')
        ex.tag('ground-gkls')
    ex = Explorer(mode='EXACT', name='gkls %d %d' % (n, k))
    ex.explore(h)
    return summary(ex, 'GKLS(%d,%d) clause (a)' % (n, k), {'family': 'gkls', 'fn': (n, k)})


if __name__ == '__main__':
    main()
