"""z3-free, number-type-generic code shared by the symbolic method-level harnesses (numbers are symex proxies, conditions
are SymBool) and by the native replay scripts (numbers are floats, conditions are bool).

Contents
  load()                  the repository's modules from sys.path (the caller decides which tree)
  problem_class()         a Problem whose objective is a Python callable and which logs every evaluation
  listener_class()        a recording listener derived from the repository's base Listener
  reference clauses       the AGP decision rule, stop rule, optimum rule and search-information rules of properties
                          C02/C03/C04/C06 written once over a *history* (what a user can observe), yielding (label, cond)
  inv-state builder       puts a real Solver into an arbitrary state satisfying the representation invariant (DESIGN 5)
"""
import importlib
import math
import sys

TOL = 1e-9
INF = float('inf')
FMAX = sys.float_info.max


def concrete(v):
    return isinstance(v, (int, float)) or type(v).__module__ == 'numpy'


def EQ(a, b):
    if concrete(a) and concrete(b):
        a, b = float(a), float(b)
        if a == b:
            return True
        if math.isinf(a) or math.isinf(b) or a != a or b != b:
            return False
        return abs(a - b) <= TOL * max(1.0, abs(a), abs(b))
    return a == b


def LE(a, b):
    """a <= b (natively: up to a relative tolerance in favour of the code)."""
    if concrete(a) and concrete(b):
        a, b = float(a), float(b)
        if a <= b:
            return True
        if math.isinf(a) or math.isinf(b):
            return False
        return a - b <= TOL * max(1.0, abs(a), abs(b))
    return a <= b


def LT(a, b):
    return a < b


def AND(*cs):
    r = True
    for c in cs:
        if r is True:
            r = c
        elif c is True:
            pass
        elif r is False or c is False:
            r = False
        else:
            r = r & c
    return r


def NOT(c):
    if isinstance(c, bool):
        return not c
    return ~c


def holder(dx, N):
    """Hoelder length |dx|^(1/N) exactly as a user would write it."""
    if N == 1:
        return dx
    return dx ** (1.0 / N)


# ----------------------------------------------------------------------------------------------
class Mods:
    pass


def load():
    m = Mods()
    for k, n in dict(solver='iOpt.solver', params='iOpt.solver_parametrs', problem='iOpt.problem', trial='iOpt.trial',
                     sd='iOpt.method.search_data', method='iOpt.method.method', process='iOpt.method.process',
                     listener='iOpt.method.listener', evolvent='iOpt.evolvent.evolvent', solution='iOpt.solution',
                     task='iOpt.method.optim_task').items():
        setattr(m, k, importlib.import_module(n))
    return m


def problem_class(mods):
    class FnProblem(mods.problem.Problem):
        """objective = fn(point_coordinates, evaluation_index); every call is logged before it is evaluated"""

        def __init__(self, N, lower, upper, fn):
            super().__init__()
            self.numberOfFloatVariables = N
            self.numberOfDisreteVariables = 0
            self.numberOfObjectives = 1
            self.numberOfConstraints = 0
            self.floatVariableNames = ['x%d' % i for i in range(N)]
            self.lowerBoundOfFloatVariables = list(lower)
            self.upperBoundOfFloatVariables = list(upper)
            self.fn = fn
            self.started = []       # every point at which an evaluation was attempted
            self.done = []          # (point, value) of completed evaluations
            self.new_holder = False # True: Calculate returns a NEW FunctionValue instead of filling the supplied one

        def Calculate(self, point, functionValue):
            ys = list(point.floatVariables)
            self.started.append(ys)
            v = self.fn(ys, len(self.started) - 1)
            self.done.append((ys, v))
            if self.new_holder:
                out = type(functionValue)()
                out.value = v
                return out
            functionValue.value = v
            return functionValue
    return FnProblem


def snapshot_solution(sol):
    bt = sol.bestTrials[0]
    pt = getattr(bt, 'point', None)
    fv = getattr(bt, 'functionValues', None)
    return {
        'best_obj': bt,
        'best_point': list(pt.floatVariables) if pt is not None and getattr(pt, 'floatVariables', None) is not None else None,
        'best_value': fv[0].value if fv else None,
        'trials': sol.numberOfGlobalTrials,
        'local_trials': sol.numberOfLocalTrials,
        'accuracy': sol.solutionAccuracy,
    }


def listener_class(mods, overrides=('before', 'iter', 'stop')):
    """A listener derived from the repository's base class that overrides the given subset of callbacks and records
    what it is told (the trial data are copied at the time of the call)."""
    base = mods.listener.Listener
    ns = {}

    def __init__(self):
        self.events = []
        self.clock = None
    ns['__init__'] = __init__
    if 'before' in overrides:
        def BeforeMethodStart(self, method):
            self.events.append(('before', self.clock() if self.clock else None, None))
        ns['BeforeMethodStart'] = BeforeMethodStart
    if 'iter' in overrides:
        def OnEndIteration(self, points, solution):
            pts = [(p.GetX(), p.GetZ(), list(p.GetY().floatVariables), p) for p in points]
            self.events.append(('iter', pts, snapshot_solution(solution)))
        ns['OnEndIteration'] = OnEndIteration
    if 'stop' in overrides:
        def OnMethodStop(self, searchData, solution, status):
            self.events.append(('stop', status, snapshot_solution(solution)))
        ns['OnMethodStop'] = OnMethodStop
    if 'refresh' in overrides:
        def OnRefrash(self, searchData):
            self.events.append(('refresh', None, None))
        ns['OnRefrash'] = OnRefrash
    return type('RecListener', (base,), ns)


# ----------------------------------------------------------------------------------------------
# reference clauses over an observed history
def characteristic(xl, xr, zl, zr, M, Z, r, N):
    """The property's formula; zl / zr is None for the never-evaluated outer ends 0 and 1."""
    return characteristic_D(holder(xr - xl, N), zl, zr, M, Z, r)


def characteristic_D(D, zl, zr, M, Z, r):
    if zl is not None and zr is not None:
        return D + (zr - zl) * (zr - zl) / (r * r * M * M * D) - 2 * (zr + zl - 2 * Z) / (r * M)
    if zr is not None:
        return 2 * D - 4 * (zr - Z) / (r * M)
    if zl is not None:
        return 2 * D - 4 * (zl - Z) / (r * M)
    return None


def next_point(xl, xr, zl, zr, M, r, N):
    if zl is None or zr is None:
        return (xl + xr) / 2
    d = zr - zl
    if d > 0:
        return (xl + xr) / 2 - ((d / M) ** N) / (2 * r)
    return (xl + xr) / 2 + (((-d) / M) ** N) / (2 * r)


def agp_history_clauses(trials, r, N):
    """trials: [(x, z)] in evaluation order.  Yields (label, cond) for the C02 decision rule."""
    out = []
    x1, z1 = trials[0]
    out.append(('FIRST: the first trial is at curve coordinate 0.5', EQ(x1, 0.5)))
    pts = [(0.0, None), (x1, z1), (1.0, None)]
    M = 1.0
    Z = z1
    for k in range(1, len(trials)):
        xk, zk = trials[k]
        # the interval of the current partition that contains the new point
        t = None
        for j in range(1, len(pts)):
            if LT(xk, pts[j][0]):
                t = j
                break
        if t is None:
            out.append(('INSIDE: trial %d lies strictly inside an interval of the partition (no curve point twice)' % (k + 1), False))
            break
        inside = LT(pts[t - 1][0], xk)
        out.append(('INSIDE: trial %d lies strictly inside an interval of the partition (no curve point twice)' % (k + 1), inside))
        if not bool_of(inside):
            break
        Rs = [characteristic(pts[j - 1][0], pts[j][0], pts[j - 1][1], pts[j][1], M, Z, r, N) for j in range(1, len(pts))]
        for j in range(1, len(pts)):
            if j != t:
                out.append(('MAXR: trial %d subdivides an interval with maximal characteristic' % (k + 1), LE(Rs[j - 1], Rs[t - 1])))
        exp = next_point(pts[t - 1][0], pts[t][0], pts[t - 1][1], pts[t][1], M, r, N)
        out.append(('POINT: trial %d is placed at the point given by the decision rule' % (k + 1), EQ(xk, exp)))
        # update the model
        for (xa, za), (xb, zb) in (((pts[t - 1]), (xk, zk)), ((xk, zk), pts[t])):
            if za is not None and zb is not None:
                m = abs(zb - za) / holder(xb - xa, N)
                if m > M:
                    M = m
        if zk < Z:
            Z = zk
        pts.insert(t, (xk, zk))
    return out


def agp_history_check_fast(trials, r, N, tol=1e-9):
    """numpy version of agp_history_clauses for long native runs: returns the list of violated clause labels (first occurrence each)"""
    import numpy as np
    bad = []
    xs = [0.0, float(trials[0][0]), 1.0]
    zs = [np.nan, float(trials[0][1]), np.nan]
    if abs(xs[1] - 0.5) > 1e-12:
        bad.append('FIRST: the first trial is at curve coordinate 0.5')
    M, Z = 1.0, zs[1]
    import bisect
    for k in range(1, len(trials)):
        xk, zk = float(trials[k][0]), float(trials[k][1])
        t = bisect.bisect_right(xs, xk)
        if t == 0 or t >= len(xs) or xs[t - 1] >= xk:
            bad.append('INSIDE: trial %d lies strictly inside an interval of the partition (no curve point twice)' % (k + 1))
            break
        X = np.array(xs)
        Zs = np.array(zs)
        D = (X[1:] - X[:-1]) ** (1.0 / N)
        zl, zr = Zs[:-1], Zs[1:]
        both = ~np.isnan(zl) & ~np.isnan(zr)
        R = np.where(both, D + (zr - zl) ** 2 / (r * r * M * M * D) - 2 * (zr + zl - 2 * Z) / (r * M),
                     np.where(np.isnan(zl), 2 * D - 4 * (zr - Z) / (r * M), 2 * D - 4 * (zl - Z) / (r * M)))
        Rt = R[t - 1]
        if np.nanmax(R) - Rt > tol * max(1.0, abs(Rt)):
            lab = 'MAXR: trial %d subdivides an interval with maximal characteristic' % (k + 1)
            if not any(b.startswith('MAXR') for b in bad):
                bad.append(lab + ' (R chosen %r, largest %r)' % (float(Rt), float(np.nanmax(R))))
        exp = next_point(xs[t - 1], xs[t], None if np.isnan(zs[t - 1]) else zs[t - 1], None if np.isnan(zs[t]) else zs[t], M, r, N)
        if abs(exp - xk) > tol * max(1.0, abs(xk)) and not any(b.startswith('POINT') for b in bad):
            bad.append('POINT: trial %d is placed at the point given by the decision rule' % (k + 1))
        for (xa, za), (xb, zb) in (((xs[t - 1], zs[t - 1]), (xk, zk)), ((xk, zk), (xs[t], zs[t]))):
            if not np.isnan(za) and not np.isnan(zb):
                m = abs(zb - za) / (xb - xa) ** (1.0 / N)
                if m > M:
                    M = m
        if zk < Z:
            Z = zk
        xs.insert(t, xk)
        zs.insert(t, zk)
        if len(bad) >= 3:
            break
    return bad


def bool_of(c):
    """Force a condition to a Python bool (forks the path in the symbolic engine)."""
    return True if c is True else False if c is False else bool(c)


# ----------------------------------------------------------------------------------------------
# observation of a solver through its public interface
def observe(solver):
    """Search information as a user sees it: traversal of solver.searchData plus getters."""
    sd = solver.searchData
    items = []
    guard = 0
    for it in sd:
        items.append(it)
        guard += 1
        if guard > 10000:
            break
    return {
        'items': items,
        'xs': [it.GetX() for it in items],
        'zs': [it.GetZ() for it in items],
        'idx': [it.GetIndex() for it in items],
        'deltas': [it.delta for it in items],
        'points': [list(it.GetY().floatVariables) for it in items],
        'values': [it.functionValues[0].value if it.functionValues else None for it in items],
        'count': sd.GetCount(),
        'solution': snapshot_solution(solver.GetResults()),
    }


def search_info_clauses(obs, done, N, image=None):
    """C06: ordered, linked, complete and faithful record.  `done` = completed evaluations [(point, value)]."""
    out = []
    items, xs = obs['items'], obs['xs']
    n = len(items)
    out.append(('COUNT: the record lists the evaluated trials plus the two end points', obs['count'] == n and n == len(done) + 2))
    out.append(('ENDS: traversal runs from 0 to 1', AND(EQ(xs[0], 0.0), EQ(xs[-1], 1.0)) if n >= 2 else False))
    for i in range(1, n):
        out.append(('ORDER: strictly increasing curve coordinate', LT(xs[i - 1], xs[i])))
        out.append(('LINKS: neighbour links are mutually consistent',
                    items[i].GetLeft() is items[i - 1] and items[i - 1].GetRight() is items[i]))
    out.append(('LINKS: the ends have no outer neighbours', n >= 1 and items[0].GetLeft() is None and items[-1].GetRight() is None))
    for i in range(1, n):
        ok = bool_of(LT(xs[i - 1], xs[i]))
        if ok:
            out.append(('DELTA: stored interval length equals (x - x_left)^(1/N)', EQ(obs['deltas'][i], holder(xs[i] - xs[i - 1], N))))
    ev = [i for i in range(n) if obs['idx'][i] == 0]
    out.append(('EVALUATED: exactly the inner items are marked evaluated', ev == list(range(1, n - 1))))
    # every inner item is one of the completed evaluations (same point, same value), each exactly once
    used = set()
    for i in range(1, n - 1):
        hit = None
        for k, (pt, v) in enumerate(done):
            if k in used:
                continue
            if len(pt) == len(obs['points'][i]) and all(bool_of(EQ(a, b)) for a, b in zip(pt, obs['points'][i])):
                hit = k
                break
        if hit is None:
            out.append(('POINTVALUE: every listed trial is a completed evaluation', False))
            continue
        used.add(hit)
        out.append(('VALUE: stored value is the objective at the stored point',
                    AND(EQ(obs['zs'][i], done[hit][1]), EQ(obs['values'][i], done[hit][1]))))
    if image is not None:
        for i in range(n):
            if len(obs['points'][i]) > 1 and not (concrete(xs[i]) or (hasattr(xs[i], 'const') and xs[i].const() is not None)):
                continue        # N >= 2 and a symbolic coordinate: re-running the descent would fork once per cell (the image clause is C07's)
            img = image(xs[i])
            out.append(('IMAGE: stored point is the evolvent image of its coordinate',
                        AND(*[EQ(a, b) for a, b in zip(img, obs['points'][i])])))
    # value holders are not shared between items
    holders = [id(it.functionValues[0]) for it in items[1:n - 1] if it.functionValues]
    out.append(('OWN: every evaluated trial owns its value holder', len(set(holders)) == len(holders)))
    return out


def optimum_clauses(sol, done, where):
    """C04 on a solution snapshot: best is an evaluated point, value = objective there, nothing smaller."""
    out = []
    bp, bv = sol['best_point'], sol['best_value']
    if not done:
        return out
    hit = None
    if bp is not None:
        for k, (pt, v) in enumerate(done):
            if len(pt) == len(bp) and all(bool_of(EQ(a, b)) for a, b in zip(pt, bp)):
                hit = k
                break
    out.append(('BEST-EVALUATED %s: the reported best point is one of the evaluated points' % where, hit is not None))
    if hit is not None:
        out.append(('BEST-VALUE %s: the reported value is the objective at the reported point' % where, EQ(bv, done[hit][1])))
    if bv is not None:
        for (pt, v) in done:
            out.append(('BEST-MIN %s: no evaluated trial has a smaller value' % where, LE(bv, v)))
    return out


# ----------------------------------------------------------------------------------------------
# a real Solver in an arbitrary state satisfying the representation invariant
def make_solver(mods, problem, r, eps, iters_limit, density=None, refine=False, start_point=None):
    kw = dict(eps=eps, r=r, itersLimit=iters_limit, refineSolution=refine)
    if start_point is not None:
        kw['startPoint'] = mods.trial.Point(list(start_point), [])
    if density is not None:
        kw['evolventDensity'] = density
    params = mods.params.SolverParameters(**kw)
    return mods.solver.Solver(problem, params)


def set_private(obj, cls_name, attr, value):
    setattr(obj, '_%s__%s' % (cls_name, attr), value)


def get_private(obj, cls_name, attr):
    return getattr(obj, '_%s__%s' % (cls_name, attr))


def populate(mods, solver, spec):
    """Overwrites the solver's search state.

    spec: xs (inner coordinates, increasing), zs, points (images of 0, xs..., 1), deltas (len(xs)+1 Hoelder lengths),
          M, best (index into xs), recalc, min_delta, iterations, trials, stale (concrete stale keys when recalc)
    With recalc False every characteristic is computed by the real CalculateGlobalR and queued by the real queue.
    Returns the list of items in coordinate order."""
    SDI = mods.sd.SearchDataItem
    Point = mods.trial.Point
    FV = mods.trial.FunctionValue
    sd, method, process = solver.searchData, solver.method, solver.process
    xs = [0.0] + list(spec['xs']) + [1.0]
    n = len(xs)
    items = []
    for i in range(n):
        it = SDI(Point(spec['points'][i], []), xs[i], [FV()])
        if 0 < i < n - 1:
            it.functionValues[0].value = spec['zs'][i - 1]
            it.SetZ(spec['zs'][i - 1])
            it.SetIndex(0)
        it.delta = 0 if i == 0 else spec['deltas'][i - 1]
        items.append(it)
    for i in range(n):
        if i > 0:
            items[i].SetLeft(items[i - 1])
        if i < n - 1:
            items[i].SetRight(items[i + 1])
    # insertion log: ends first, then the inner items (some order; the public behaviour must not depend on it)
    order = spec.get('log_order') or list(range(1, n - 1))
    sd._allTrials = [items[0], items[-1]] + [items[i] for i in order]
    set_private(sd, 'SearchData', 'firstDataItem', items[0])
    best = items[1 + spec['best']]
    method.best = best
    method.M = [spec['M']]
    method.Z = [best.GetZ()]
    method.recalc = spec['recalc']
    method.iterationsCount = spec['iterations']
    method.stop = False
    sd.solution.bestTrials[0] = best
    sd.solution.numberOfGlobalTrials = spec['trials']
    sd.solution.solutionAccuracy = spec['min_delta']
    set_private(process, 'Process', 'first_iteration', False)
    sd.ClearQueue()
    if spec['recalc']:
        stale = spec.get('stale') or [1.0e9 - 10.0 * i for i in range(n)]
        for i in range(n):
            items[i].globalR = stale[i]
        for i in range(n):
            sd._RGlobalQueue.Insert(items[i].globalR, items[i])
    else:
        for i in range(n):
            method.CalculateGlobalR(items[i], items[i].GetLeft())
        for i in range(n):
            sd._RGlobalQueue.Insert(items[i].globalR, items[i])
    return items


# ----------------------------------------------------------------------------------------------
# one step from an arbitrary invariant state: snapshot before, clauses after (number-type generic)
def pre_snapshot(mods, solver, items, N):
    """Taken just before the step.  Expected characteristics / next point come from the repository's own kernels run on
    a deep copy of the item list with the CURRENT M and Z (the kernels are tied to the property's formulas by the
    kernel obligations K1)."""
    import copy
    method = solver.method
    clones = copy.deepcopy(items)
    rexp = [None]
    for i in range(1, len(clones)):
        method.CalculateGlobalR(clones[i], clones[i - 1])
        rexp.append(clones[i].globalR)
    return {
        'items': list(items), 'clones': clones, 'rexp': rexp, 'N': N,
        'xs': [it.GetX() for it in items], 'zs': [it.GetZ() for it in items], 'deltas': [it.delta for it in items],
        'idx': [it.GetIndex() for it in items],
        'M': method.M[0], 'Z': method.Z[0], 'r': method.parameters.r, 'recalc': method.recalc,
        'min_delta': solver.searchData.solution.solutionAccuracy, 'iterations': method.iterationsCount,
        'trials': solver.searchData.solution.numberOfGlobalTrials, 'best': method.best,
        'count': solver.searchData.GetCount(), 'evals': len(solver.problem.started),
    }


def step_clauses(mods, solver, pre, want=('C02', 'C03', 'C04', 'C06')):
    """(label, kind, cond) after one DoGlobalIteration(1) from the state `pre`.
    kind 'P' = literally a clause of the property (a native unit replay confirms it);
    kind 'I' = preservation of the representation invariant (a lemma: needs an end-to-end witness)."""
    out = []
    sd, method = solver.searchData, solver.method
    items = pre['items']
    n = len(items)
    new = sd.GetLastItem()
    is_new = all(new is not it for it in items)
    out.append(('C06 STEP-NEW: the iteration appends exactly one new trial to the record', 'P',
                 is_new and sd.GetCount() == pre['count'] + 1))
    if not is_new:
        return out
    old = new.GetRight()
    t = None
    for i in range(1, n):
        if items[i] is old:
            t = i
    out.append(('C06 STEP-LINK: the new trial is linked between the two ends of the interval it subdivides', 'P',
                 t is not None and new.GetLeft() is items[t - 1] and items[t - 1].GetRight() is new and old.GetLeft() is new))
    if t is None or new.GetLeft() is not items[t - 1]:
        return out
    xl, xr, xn = pre['xs'][t - 1], pre['xs'][t], new.GetX()
    N = pre['N']
    if 'C02' in want:
        for j in range(1, n):
            if j != t:
                out.append(('C02 STEP-MAXR: the subdivided interval has a maximal characteristic (M, z* at decision time)', 'P',
                             LE(pre['rexp'][j], pre['rexp'][t])))
        out.append(('C02 STEP-INSIDE: the new point lies strictly inside the chosen interval', 'P', AND(LT(xl, xn), LT(xn, xr))))
        expx = method.__class__.CalculateNextPointCoordinate(_with_M(method, pre['M']), pre['clones'][t])
        out.append(('C02 STEP-POINT: the new point is the one the decision rule gives for the chosen interval', 'P', EQ(xn, expx)))
    # M, z*, recalc
    Mn, Zn = method.M[0], method.Z[0]
    zn = new.GetZ()
    if 'C02' in want:
        out.append(('C02 STEP-MMONO: the slope estimate never decreases and stays >= 1', 'I', AND(LE(pre['M'], Mn), LE(1.0, Mn))))
        for (a, b) in ((items[t - 1], new), (new, old)):
            if a.GetIndex() == 0 and b.GetIndex() == 0:
                out.append(('C02 STEP-MDOM: the slope estimate dominates the slopes of the two new intervals', 'I',
                             LE(abs(b.GetZ() - a.GetZ()) / b.delta, Mn)))
        grew = LT(pre['M'], Mn)
        better = LT(zn, pre['Z'])
        # characteristics are current unless a recalculation is pending
        if method.recalc is not True:
            out.append(('C02 STEP-RECALC: a recalculation is pending whenever M grew or the optimum improved', 'I',
                         AND(NOT(grew), NOT(better))))
            cur = []
            g = 0
            for it in sd:
                cur.append(it)
                g += 1
                if g > 1000:
                    break
            import copy
            cl = copy.deepcopy(cur)
            ents = list_queue(sd)
            out.append(('C02 STEP-QUEUE: every interval is queued exactly once', 'I',
                         ents is None or sorted(id(e[0]) for e in ents) == sorted(id(c) for c in cur)))
            for i in range(1, len(cl)):
                method.CalculateGlobalR(cl[i], cl[i - 1])
                out.append(('C02 STEP-RCUR: stored characteristics are up to date with the current M and z*', 'I',
                             EQ(cur[i].globalR, cl[i].globalR)))
                if ents is not None:
                    for (qi, qk) in ents:
                        if qi is cur[i]:
                            out.append(('C02 STEP-QKEY: queued priorities equal the stored characteristics', 'I', EQ(qk, cur[i].globalR)))
    if 'C03' in want:
        out.append(('C03 STEP-COUNT: one iteration = one evaluation = one reported trial', 'P',
                     AND(EQ(method.iterationsCount, pre['iterations'] + 1), EQ(sd.solution.numberOfGlobalTrials, pre['trials'] + 1),
                         len(solver.problem.started) == pre['evals'] + 1)))
        dl = pre['deltas'][t]
        md = pre['min_delta']
        exp_md = dl if bool_of(LT(dl, md)) else md
        out.append(('C03 STEP-ACC: reported accuracy = min(previous accuracy, Hoelder length of the subdivided interval)', 'P',
                     EQ(sd.solution.solutionAccuracy, exp_md)))
    if 'C04' in want:
        best = method.best
        sb = sd.solution.bestTrials[0]
        out.append(('C04 STEP-BESTOBJ: the reported best trial is the current optimum estimate and is in the record', 'P',
                     sb is best and any(best is it for it in list(items) + [new])))
        zb = best.GetZ()
        for it in list(items[1:n - 1]) + [new]:
            out.append(('C04 STEP-BESTMIN: no evaluated trial has a smaller value than the reported best', 'P', LE(zb, it.GetZ())))
        out.append(('C04 STEP-BESTVAL: reported value = objective at the reported point (own value holder)', 'P',
                     AND(EQ(best.functionValues[0].value, zb), EQ(Zn, zb))))
        if bool_of(LT(zn, pre['Z'])):
            out.append(('C04 STEP-BESTNEW: a strictly better trial becomes the optimum', 'P', best is new))
    if 'C06' in want:
        out.append(('C06 STEP-DELTA: both new intervals store (x - x_left)^(1/N)', 'P',
                     AND(EQ(new.delta, holder(xn - xl, N)), EQ(old.delta, holder(xr - xn, N)))))
        for i in range(1, n):
            if i != t:
                out.append(('C06 STEP-FRAME: other intervals keep their length and links', 'P',
                             AND(EQ(items[i].delta, pre['deltas'][i]), items[i].GetLeft() is items[i - 1], items[i - 1].GetRight() is items[i])))
        done = solver.problem.done
        out.append(('C06 STEP-VALUE: the new trial stores the objective at its own point in its own value holder', 'P',
                     AND(EQ(zn, done[-1][1]), EQ(new.functionValues[0].value, done[-1][1]), new.GetIndex() == 0,
                         all(new.functionValues[0] is not it.functionValues[0] for it in items),
                         AND(*[EQ(a, b) for a, b in zip(done[-1][0], list(new.GetY().floatVariables))]))))
        img = list(solver.evolvent.GetImage(xn))
        out.append(('C06 STEP-IMAGE: the stored point is the evolvent image of the new coordinate', 'P',
                     AND(*[EQ(a, b) for a, b in zip(img, list(new.GetY().floatVariables))])))
        for i in range(1, n - 1):
            out.append(('C06 STEP-OLDVALUES: earlier trials keep their coordinates, values and points', 'P',
                         AND(EQ(items[i].GetX(), pre['xs'][i]), EQ(items[i].GetZ(), pre['zs'][i]),
                             EQ(items[i].functionValues[0].value, pre['zs'][i]))))
    return out


class _with_M:
    """A stand-in for `self` that lets a kernel run with an earlier slope estimate (decision-time M)."""

    def __init__(self, method, M):
        self._m = method
        self.M = [M]

    def __getattr__(self, n):
        return getattr(self._m, n)


def list_queue(sd):
    """Entries (item, priority) of the global characteristics queue, or None if the container is not understood."""
    q = getattr(sd, '_RGlobalQueue', None)
    b = getattr(q, '_CharacteristicsQueue__baseQueue', None)
    d = getattr(b, 'data', None)
    if d is None:
        return None
    return [(e[0], e[1]) for e in d]


# ----------------------------------------------------------------------------------------------
# concrete objective families for reachable prefixes (the same code runs natively in the replays)
def prefix_function(seed, N):
    """A deterministic smooth/flat/stepped objective chosen by `seed` (floats in, float out)."""
    import random
    rnd = random.Random(1000 + seed)
    kind = seed % 7
    a = [rnd.uniform(0.5, 2.0) for _ in range(N)]
    b = [rnd.uniform(1.0, 6.0) for _ in range(N)]
    c = [rnd.uniform(0.0, 3.0) for _ in range(N)]
    d = [rnd.uniform(-0.5, 0.5) for _ in range(N)]

    def smooth(ys):
        return sum(a[i] * math.sin(b[i] * ys[i] + c[i]) + d[i] * ys[i] * ys[i] for i in range(N))
    if kind == 5:       # decreasing towards the upper corner (the optimum sits on the boundary of the box)
        return lambda ys: -sum(a[i] * ys[i] for i in range(N))
    if kind == 6:       # decreasing towards the lower corner
        return lambda ys: sum(a[i] * ys[i] for i in range(N))
    if kind == 3:       # flat: every value equal (ties everywhere)
        return lambda ys: 1.25
    if kind == 4:       # stepped: few distinct values (ties with the optimum, plateaus)
        return lambda ys: float(math.floor(2.0 * smooth(ys))) / 2.0
    if kind == 2:       # steep
        return lambda ys: 25.0 * smooth(ys)
    return smooth


def run_script(mods, solver, script):
    """script: list of ('iter', n) / ('solve',) / ('results',) steps through the public interface."""
    out = []
    for st in script:
        if st[0] == 'iter':
            solver.DoGlobalIteration(st[1])
        elif st[0] == 'solve':
            out.append(('solve', solver.Solve()))
        elif st[0] == 'results':
            out.append(('results', solver.GetResults()))
    return out


def trials_of(listener):
    tr = []
    for e in listener.events:
        if e[0] == 'iter':
            tr += [(p[0], p[1]) for p in e[1]]
    return tr


# ----------------------------------------------------------------------------------------------
# kernels against the property's formulas (number-type generic: symbolic in the harness, floats in the replay)
def kernel_clauses(mods, solver, which, N, v):
    """v: dict of numbers.  Returns [(label, cond)].  The caller states the hypotheses (xl < xr, D > 0, M >= 1, r > 1 ...)."""
    SDI, Point, FV = mods.sd.SearchDataItem, mods.trial.Point, mods.trial.FunctionValue
    method = solver.method
    out = []

    def item(x, z):
        it = SDI(Point([0.0] * N, []), x, [FV()])
        if z is not None:
            it.SetZ(z)
            it.SetIndex(0)
            it.functionValues[0].value = z
        return it
    if which.startswith('R-'):
        kind = which[2:]
        zl = v['zl'] if kind in ('interior', 'right-boundary') else None
        zr = v['zr'] if kind in ('interior', 'left-boundary') else None
        left, cur = item(v['xl'], zl), item(v['xr'], zr)
        cur.delta = v['D']
        cur.SetLeft(left)
        method.M = [v['M']]
        method.Z = [v['Z']]
        method.CalculateGlobalR(cur, left)
        out.append(('K1-R %s: stored characteristic equals the formula of the statement' % kind,
                    EQ(cur.globalR, characteristic_D(v['D'], zl, zr, v['M'], v['Z'], method.parameters.r))))
        first = item(0.0, None)
        method.CalculateGlobalR(first, None)
        out.append(('K1-R: the item without a left neighbour can never be chosen', first.globalR == -INF))
    elif which.startswith('M-'):
        kind = which[2:]
        zl = v['zl'] if kind in ('interior', 'right-boundary') else None
        zr = v['zr'] if kind in ('interior', 'left-boundary') else None
        left, cur = item(v['xl'], zl), item(v['xr'], zr)
        cur.delta = v['D']
        method.M = [v['M']]
        method.recalc = False
        method.CalculateM(cur, left)
        if kind == 'interior':
            m = abs(zr - zl) / v['D']
            if m > v['M']:
                out.append(('K1-M: the estimate becomes the new larger slope and a recalculation is requested',
                            AND(EQ(method.M[0], m), method.recalc is True)))
            else:
                out.append(('K1-M: a slope that is not larger leaves the estimate and the flag alone',
                            AND(EQ(method.M[0], v['M']), method.recalc is False)))
        else:
            out.append(('K1-M: boundary intervals do not contribute a slope', AND(EQ(method.M[0], v['M']), method.recalc is False)))
        method.recalc = True
        method.CalculateM(cur, left)
        out.append(('K1-M: a pending recalculation is never cancelled', method.recalc is True))
    elif which.startswith('X-'):
        kind = which[2:]
        zl = v['zl'] if kind in ('interior', 'right-boundary') else None
        zr = v['zr'] if kind in ('interior', 'left-boundary') else None
        left, cur = item(v['xl'], zl), item(v['xr'], zr)
        cur.SetLeft(left)
        cur.delta = v['D']
        method.M = [v['M']]
        x = method.CalculateNextPointCoordinate(cur)
        out.append(('K1-X %s: new point equals the formula of the statement' % kind,
                    EQ(x, next_point(v['xl'], v['xr'], zl, zr, v['M'], method.parameters.r, N))))
        out.append(('K1-X %s: new point lies strictly inside the interval' % kind, AND(LT(v['xl'], x), LT(x, v['xr']))))
    elif which == 'renew':
        # RenewSearchData on a two-interval list 0=xl < xn < xr: lengths, slope estimate, characteristics and links of both new intervals
        sd = solver.searchData
        left, old = item(v['xl'], v.get('zl')), item(v['xr'], v.get('zr'))
        old.delta = holder(v['xr'] - v['xl'], N)
        left.delta = 0
        sd.InsertFirstDataItem(left, old)
        new = item(v['xn'], v['zn'])
        method.M = [v['M']]
        method.Z = [v['Z']]
        method.recalc = False
        method.RenewSearchData(new, old)
        out.append(('K1-RENEW: both new intervals store (x - x_left)^(1/N)',
                    AND(EQ(new.delta, holder(v['xn'] - v['xl'], N)), EQ(old.delta, holder(v['xr'] - v['xn'], N)))))
        out.append(('K1-RENEW: the new trial is linked between the ends of the interval it subdivides',
                    new.GetLeft() is left and new.GetRight() is old and old.GetLeft() is new and left.GetRight() is new and sd.GetCount() == 3))
        Mn = method.M[0]
        out.append(('K1-RENEW: the slope estimate does not decrease', LE(v['M'], Mn)))
        for (a, b) in ((left, new), (new, old)):
            if a.GetIndex() == 0 and b.GetIndex() == 0:
                out.append(('K1-RENEW: the slope estimate dominates the slopes of the new intervals', LE(abs(b.GetZ() - a.GetZ()) / b.delta, Mn)))
        r = method.parameters.r
        for (a, b) in ((left, new), (new, old)):
            za = a.GetZ() if a.GetIndex() == 0 else None
            zb = b.GetZ() if b.GetIndex() == 0 else None
            out.append(('K1-RENEW: the characteristics of the new intervals are the formula of the statement (current M, z*)',
                        EQ(b.globalR, characteristic_D(b.delta, za, zb, Mn, v['Z'], r))))
    elif which == 'delta':
        d = mods.method.Method.CalculateDelta(v['xl'], v['xr'], N)
        out.append(('K1-D: CalculateDelta is (x_r - x_l)^(1/N)', EQ(d, holder(v['xr'] - v['xl'], N))))
    return out


# ----------------------------------------------------------------------------------------------
# clauses over a whole observed run (public interface only)
def run_clauses(mods, solver, prob, listener, want, r, N, fresh_image=None):
    out = []
    trials = trials_of(listener)
    if 'C02' in want:
        out += [('C02 ' + l, c) for l, c in agp_history_clauses(trials, r, N)]
        if trials:
            img = fresh_image(0.5) if fresh_image else None
            if img is not None and prob.started:
                out.append(('C02 FIRSTIMG: the first trial is the evolvent image of 0.5',
                            AND(*[EQ(a, b) for a, b in zip(img, prob.started[0])])))
    if 'C04' in want:
        n_done = 0
        for e in listener.events:
            if e[0] == 'iter':
                n_done += len(e[1])
                out += [('C04 ' + l, c) for l, c in optimum_clauses(e[2], prob.done[:n_done], 'in OnEndIteration')]
            elif e[0] == 'stop':
                out += [('C04 ' + l, c) for l, c in optimum_clauses(e[2], prob.done, 'in OnMethodStop')]
        out += [('C04 ' + l, c) for l, c in optimum_clauses(snapshot_solution(solver.GetResults()), prob.done, 'in GetResults')]
    if 'C06' in want:
        out += [('C06 ' + l, c) for l, c in search_info_clauses(observe(solver), prob.done, N, image=fresh_image)]
    if 'C03' in want:
        sol = solver.GetResults()
        nloc = sol.numberOfLocalTrials
        if nloc:
            # with refinement: the global count is the number of search trials (what the listener was told), the refinement's own evaluations
            # (nfev + the final re-evaluation) are extra objective calls and never global trials
            out.append(('C03 COUNT: reported global trials = trials of the global search, untouched by the refinement',
                        AND(sol.numberOfGlobalTrials == len(trials), EQ(len(prob.done), len(trials) + nloc + 1))))
        else:
            out.append(('C03 COUNT: evaluations made = reported global trials', AND(sol.numberOfGlobalTrials == len(prob.done),
                                                                                  len(prob.started) == len(prob.done))))
        out += [('C03 ' + l, c) for l, c in accuracy_clauses(trials, sol.solutionAccuracy, N)]
    return out


def accuracy_clauses(trials, reported, N):
    """reported accuracy = smallest Hoelder length of any interval that was subdivided (inf before any subdivision)"""
    pts = [0.0, 1.0]
    if trials:
        pts = [0.0, trials[0][0], 1.0]
    best = INF
    for k in range(1, len(trials)):
        xk = trials[k][0]
        t = None
        for j in range(1, len(pts)):
            if LT(xk, pts[j]):
                t = j
                break
        if t is None:
            return [('ACC: trial inside the partition', False)]
        d = holder(pts[t] - pts[t - 1], N)
        if best == INF or bool_of(LT(d, best)):
            best = d
        pts.insert(t, xk)
    return [('ACC: reported accuracy equals the smallest Hoelder length of a subdivided interval', EQ(reported, best))]


def parse_num(s):
    """z3's rendering of a model value -> float (None if not understood)."""
    import fractions
    import re
    s = str(s).strip()
    if s.endswith('?'):
        s = s[:-1]
    if re.fullmatch(r'-?\d+(\.\d+)?(/\d+)?', s):
        if '/' in s:
            a, b = s.split('/')
            return float(fractions.Fraction(fractions.Fraction(a), int(b)))
        return float(fractions.Fraction(s))
    if s in ('True', 'False'):
        return s == 'True'
    return None


NBOXES = {1: ([-1.5], [2.5]), 2: ([-0.5, 1.0], [1.5, 4.0]), 3: ([0.0, -1.0, 2.0], [1.0, 3.0, 2.5]),
          4: ([0.0, -1.0, 2.0, -3.0], [1.0, 3.0, 2.5, 3.0]), 5: ([0.0, -1.0, 2.0, -3.0, 1.0], [1.0, 3.0, 2.5, 3.0, 9.0])}


def _refine_default(cfg, g, N, lower, upper):
    """values of points the symbolic run never saw (the real Nelder-Mead evaluates many): a linear function decreasing towards
    the first arbitrary point of the minimize stub that lies outside the box (else towards its first point)"""
    scripts = [cfg.get('script', [])] + [v.get('script', []) for v in cfg.get('variants', [])]
    if not (cfg.get('refine') or any(st[0] == 'refine' for sc in scripts for st in sc)):
        return None
    target = [g('nm0_%d' % c, None) for c in range(N)]
    for j in range(3):
        cand = [g('nm%d_%d' % (j, c), None) for c in range(N)]
        if all(v is not None for v in cand) and any(not (lower[c] <= cand[c] <= upper[c]) for c in range(N)):
            target = cand
            break
    if not all(v is not None for v in target):
        target = [upper[c] + 1.0 for c in range(N)]
    centre = [(lower[c] + upper[c]) / 2 for c in range(N)]
    dirn = [target[c] - centre[c] for c in range(N)]
    nrm = max(1e-9, sum(d * d for d in dirn) ** 0.5)

    def refine_default(ys):
        return -1000.0 - 50.0 * sum((float(ys[c]) - centre[c]) * dirn[c] / nrm for c in range(N))
    return refine_default


def native_main(a):
    """Native confirmation of a solver counterexample.  a: dict (level, want, N, model, ...).  Returns the list of violated
    clause labels (empty = the violation does not reproduce)."""
    mods = load()
    P = problem_class(mods)
    N = a['N']
    lower, upper = a.get('box') or NBOXES[N]
    model = {k: parse_num(v) for k, v in a.get('model', {}).items()}
    want = a['want']
    bad = []

    def g(k, dflt=None):
        v = model.get(k)
        return dflt if v is None else v
    try:
        if a['level'] == 'kernel':
            r = g('r', 2.5)
            s = make_solver(mods, P(N, lower, upper, lambda ys, i: 0.0), r, 0.01, 1000)
            v = {k: g(k, 0.0) for k in ('xl', 'xr', 'zl', 'zr', 'M', 'Z', 'D', 'xn', 'zn')}
            if a['which'] == 'renew' and a.get('ends_unevaluated'):
                v['zl'] = v['zr'] = None
            if a.get('derive_D'):
                v['D'] = holder(v['xr'] - v['xl'], N)
            cl = kernel_clauses(mods, s, a['which'], N, v)
        elif a['level'] == 'step':
            k = a['k']
            r = g('r', 2.5)
            zs_new = [g('z%d' % (k + j), 0.0) for j in range(4)]
            s = make_solver(mods, P(N, lower, upper, lambda ys, i: zs_new[i] if i < len(zs_new) else 0.0), r, g('eps', 1e-9), int(g('iters_limit', 10 ** 6)))
            xs = [g('x%d' % i) for i in range(1, k + 1)]
            zs = [g('z%d' % i, 0.0) for i in range(k)]
            if any(x is None for x in xs) or sorted(xs) != xs or xs[0] <= 0 or xs[-1] >= 1:
                return ['(model coordinates unusable natively: %r)' % (xs,)], True
            full = [0.0] + xs + [1.0]
            pts = [list(s.evolvent.GetImage(x)) for x in full]
            for i in range(k):
                s.problem.started.append(pts[i + 1])
                s.problem.done.append((pts[i + 1], zs[i]))
            spec = dict(xs=xs, zs=zs, points=pts, deltas=[holder(full[i] - full[i - 1], N) for i in range(1, len(full))],
                        M=g('M', 1.0), best=int(a.get('best') if a.get('best') is not None else g('best', 0)),
                        recalc=bool(a.get('recalc') if a.get('recalc') is not None else g('recalc', False)),
                        min_delta=INF if (a.get('md_inf') if a.get('md_inf') is not None else g('accuracy_is_inf', True)) else g('min_delta', 1.0),
                        iterations=int(g('iterations', 1)), trials=int(g('trials', k)) if not a.get('fault') else k)
            s.problem.started_offset = k
            items = populate(mods, s, spec)
            # the native objective is indexed by evaluation number: shift so that the next evaluation gets z_k
            base = len(s.problem.started)
            s.problem.fn = lambda ys, i: zs_new[i - base] if 0 <= i - base < len(zs_new) else 0.0
            pre = pre_snapshot(mods, s, items, N)
            if a.get('fault'):
                import io
                import contextlib
                fk, fe = a['fault']
                s.problem.fn = lambda ys, i: (_raise(EXC_TYPES[fe]()) if i == fk else (zs_new[i - base] if 0 <= i - base < len(zs_new) else 0.0))
                s.method.parameters.eps = 1e-12
                s.method.parameters.itersLimit = int(s.method.iterationsCount) + 4
                buf = io.StringIO()
                with contextlib.redirect_stdout(buf):
                    n0 = len(s.problem.started)
                    sol = s.Solve()
                ctx = {'solver': s, 'prob': s.problem, 'N': N, 'returned': [('solve', sol, snapshot_solution(sol), n0, len(s.problem.started))],
                       'prints': buf.getvalue().splitlines(), 'lower': lower, 'upper': upper}
                cl = fault_clauses(mods, ctx, want)
            elif a.get('solve'):
                import io
                import contextlib
                buf = io.StringIO()
                with contextlib.redirect_stdout(buf):
                    cl3, _ = loop_clauses(mods, s, pre, g('eps', 1e-9), int(g('iters_limit', 10 ** 6)), _Lines(buf))
                cl = [(l, c) for (l, kind, c) in cl3]
            else:
                s.DoGlobalIteration(1)
                cl = [(l, c) for (l, kind, c) in step_clauses(mods, s, pre, want=want) if kind == 'P' or a.get('all_kinds')]
        elif a['level'] == 'compose':
            cfg = a['cfg']
            N = cfg['N']
            f = prefix_function(cfg.get('seed', 0), N)
            kpre = cfg.get('kpre', 0)
            zs = [g('z%d' % j, 0.0) for j in range(cfg.get('nsym', 8))]
            memo = {}
            pre = {}
            rdef = _refine_default(cfg, g, N, lower, upper)

            def factory():
                def obj(ys, i):
                    key = tuple(round(float(y), 12) for y in ys)
                    if i < kpre:
                        pre[key] = f([float(y) for y in ys])
                        return pre[key]
                    if key in pre:
                        return pre[key]
                    if key not in memo:
                        j = len(memo)
                        memo[key] = zs[j] if j < len(zs) else (rdef(ys) if rdef else 0.0)
                    return memo[key]
                return obj
            import io
            import contextlib
            buf = io.StringIO()
            with contextlib.redirect_stdout(buf):
                ctxs = compose_run(mods, cfg, factory, cfg['r'], g('eps', 1e-9) if cfg.get('eps') == 'sym' else cfg.get('eps', 1e-9))
            for c in ctxs:
                c['prints'] = buf.getvalue().splitlines()
            import importlib
            modname, fn = a['clauses']
            cl = getattr(importlib.import_module(modname), fn)(mods, ctxs, want)
        elif a['level'] == 'longrun':
            # end-to-end witness for a structural finding (e.g. a bounded characteristics queue): a long native run checked trial by trial
            r = a.get('r', 3.5)
            iters = int(a['iters'])
            f = prefix_function(a.get('seed', 0), N)
            s = make_solver(mods, P(N, lower, upper, lambda ys, i: f([float(y) for y in ys])), r, 1e-12, iters + 5, density=a.get('density'))
            L = listener_class(mods, ('iter',))()
            s.AddListener(L)
            s.DoGlobalIteration(iters)
            cl = [('C02 ' + l, False) for l in agp_history_check_fast(trials_of(L), r, N)]
        elif a['level'] == 'guard':
            s = make_solver(mods, P(1, lower, upper, lambda ys, i: 0.0), 2.5, 0.01, 1000)
            cl = guard_clauses(mods, s, g('eps', 0.01), int(g('iters_limit', 1)), int(g('iterations', 1)),
                               INF if g('accuracy_is_inf', True) else g('min_delta', 1.0))
        elif a['level'] == 'prefix':
            r = a['r']
            f = prefix_function(a['seed'], N)
            kpre = a['kpre']
            zs = [g('z%d' % j, 0.0) for j in range(a.get('nsym', 8))]
            memo = {}

            def obj(ys, i):
                if i < kpre:
                    return f([float(y) for y in ys])
                key = tuple(round(float(y), 12) for y in ys)
                if key not in memo:
                    memo[key] = zs[i - kpre] if i - kpre < len(zs) else 0.0
                return memo[key]
            s = make_solver(mods, P(N, lower, upper, obj), r, a.get('eps', 1e-9), a.get('iters_limit', 10 ** 6), density=a.get('density'))
            L = listener_class(mods)()
            s.AddListener(L)
            run_script(mods, s, a['script'])
            Ev = mods.evolvent.Evolvent

            def fresh_image(x):
                return list(Ev(lower, upper, N, s.evolvent.evolventDensity).GetImage(x))
            cl = run_clauses(mods, s, s.problem, L, want, r, N, fresh_image=fresh_image)
        elif a['level'] == 'scenario':
            cfg = a['cfg']
            N = cfg['N']
            f = prefix_function(cfg.get('seed', 0), N)
            kpre = cfg.get('kpre', 0)
            zs = [g('z%d' % j, 0.0) for j in range(cfg.get('nsym', 8))]
            memo = {}
            pre = {}
            refine_default = _refine_default(cfg, g, N, lower, upper)
            fail = cfg.get('fail')

            def obj(ys, i):
                if fail and i == fail[0]:
                    raise EXC_TYPES[fail[1]]()
                key = tuple(round(float(y), 12) for y in ys)
                if i < kpre:
                    pre[key] = f([float(y) for y in ys])
                    return pre[key]
                if key in pre:
                    return pre[key]
                if key not in memo:
                    j = len(memo)
                    memo[key] = zs[j] if j < len(zs) else (refine_default(ys) if refine_default else 0.0)
                return memo[key]
            import io
            import contextlib
            buf = io.StringIO()
            with contextlib.redirect_stdout(buf):
                ctx = run_scenario(mods, cfg, obj, cfg['r'], g('eps', cfg.get('eps_value', 1e-9)) if cfg.get('eps') == 'sym' else cfg.get('eps', 1e-9))
            if a.get('native_extra_refine') and (cfg.get('refine') or any(st[0] == 'refine' for st in cfg['script'])):
                with contextlib.redirect_stdout(buf):
                    ctx['solver'].DoLocalRefinement(a['native_extra_refine'])
            ctx['prints'] = buf.getvalue().splitlines()
            cl = scenario_clauses(mods, ctx, want)
            if a.get('extra_clauses'):
                import importlib
                modname, fn = a['extra_clauses']
                cl += getattr(importlib.import_module(modname), fn)(mods, ctx, want)
        else:
            return ['(unknown replay level)'], True
    except BaseException as e:     # an exception out of the public interface / kernel on valid input is itself the violation
        import traceback
        return ['%s EXC: the code raised %s: %s' % (want[0] if want else '', type(e).__name__, e), traceback.format_exc()[-800:]], False
    for l, c in cl:
        if not bool_of(c) and any(l.startswith(w) or l.startswith('K1') for w in want):
            if l not in bad:
                bad.append(l)
    return bad, False


def _raise(e):
    raise e


class _Lines:
    def __init__(self, buf):
        self.buf = buf

    def __iter__(self):
        return iter(self.buf.getvalue().splitlines())


REPLAY_TEMPLATE = """# native replay (no shims, the repository's own interpreter): exit 1 = the violation reproduces on the code in IOPT_REPO
import os, sys
sys.path.insert(0, os.environ.get('IOPT_REPO', '/repo'))
sys.path.insert(1, %(verif)r)
from harness import agpnative as an
ARGS = %(args)r
bad, unusable = an.native_main(ARGS)
for b in bad:
    print('REPRODUCED' if not unusable else 'UNUSABLE', b)
sys.exit(1 if (bad and not unusable) else 0)
"""


# ----------------------------------------------------------------------------------------------
# scenarios: one description drives the symbolic run and the native replay alike
EXC_TYPES = {
    'RuntimeError(msg)': lambda: RuntimeError('objective failed'),
    'ValueError()': lambda: ValueError(),
    'KeyboardInterrupt()': lambda: KeyboardInterrupt(),
    'SystemExit(3)': lambda: SystemExit(3),
    'GeneratorExit()': lambda: GeneratorExit(),
    'UserBaseException()': lambda: _UserBase(),
    'AssertionError()': lambda: AssertionError(),
    'ZeroDivisionError(msg)': lambda: ZeroDivisionError('float division by zero'),
    'OverflowError(msg)': lambda: OverflowError('math range error'),
    'StopIteration()': lambda: StopIteration(),
}


class _UserBase(BaseException):
    pass


def run_scenario(mods, cfg, objective, r, eps, prints=None, after_create=None):
    """cfg: N, script, iters_limit, density, refine, sibling, overrides (listener callbacks), console (mode or None).
    objective(ys, idx) is the main solver's objective.  Returns a context dict."""
    P = problem_class(mods)
    N = cfg['N']
    lower, upper = cfg.get('box') or NBOXES[N]
    prob = P(N, lower, upper, objective)
    prob.new_holder = bool(cfg.get('new_holder'))
    s = make_solver(mods, prob, r, eps, cfg.get('iters_limit', 10 ** 6), density=cfg.get('density'), refine=cfg.get('refine', False),
                    start_point=cfg.get('start_point'))
    ctx = {'solver': s, 'prob': prob, 'N': N, 'r': r, 'eps': eps, 'cfg': cfg, 'returned': [], 'prints': prints,
           'lower': lower, 'upper': upper, 'polls': []}
    sib = None
    if cfg.get('sibling') == 'same-problem':
        # a second solver on the SAME Problem object, another evolvent density and reliability parameter
        sib = make_solver(mods, prob, 3.0, 1e-9, 12, density=(cfg.get('density') or 10) + 2)
        ctx['sibling'] = sib
        ctx['sibling_shares_problem'] = True
    elif cfg.get('sibling'):
        # another live solver (different dimension unless 'same', different box, its own objective)
        N2 = N if cfg['sibling'] == 'same' else (N % 3) + 1
        lo2 = [v - 1.25 for v in NBOXES[N2][0]]
        up2 = [v + 0.5 for v in NBOXES[N2][1]]
        f2 = prefix_function(cfg.get('seed', 0) + 1, N2)
        p2 = P(N2, lo2, up2, lambda ys, i: f2([y if not concrete(y) else float(y) for y in ys]))
        sib = make_solver(mods, p2, 3.0, 1e-9, 12, density=cfg.get('density'), refine=cfg.get('refine', False))
        ctx['sibling'] = sib
    if after_create is not None:
        after_create(ctx)
    if cfg.get('console') and cfg.get('console_first'):
        s.AddListener(mods.listener.ConsoleFullOutputListener(mode=cfg['console'], iters=cfg.get('console_iters', 1)))
    L = None
    if cfg.get('overrides') is not None:
        L = listener_class(mods, tuple(cfg['overrides']))()
        L.clock = lambda: len(prob.started)
        s.AddListener(L)
    ctx['listener'] = L
    if cfg.get('console') and not cfg.get('console_first'):
        s.AddListener(mods.listener.ConsoleFullOutputListener(mode=cfg['console'], iters=cfg.get('console_iters', 1)))
    for st in cfg['script']:
        if st[0] == 'iter':
            s.DoGlobalIteration(st[1])
        elif st[0] == 'solve':
            n0 = len(prob.started)
            sol = s.Solve()
            ctx['returned'].append(('solve', sol, snapshot_solution(sol), n0, len(prob.started)))
        elif st[0] == 'results':
            sol = s.GetResults()
            ctx['polls'].append((snapshot_solution(sol), len(prob.done)))
        elif st[0] == 'keep':
            sol = s.GetResults()
            ctx['returned'].append(('keep', sol, snapshot_solution(sol), len(prob.started), len(prob.started)))
        elif st[0] == 'other' and sib is not None:
            sib.DoGlobalIteration(st[1])
        elif st[0] == 'other-solve' and sib is not None:
            sib.Solve()
        elif st[0] == 'refine':
            s.DoLocalRefinement(st[1])
    return ctx


def stop_clauses(trials, eps, iters_limit, N, n_before_solve=0):
    """C03: Solve ends right after the first iteration that subdivides an interval of Hoelder length < eps, or when the
    budget is exhausted -- never earlier, never later.  `trials` = every trial of the run in order."""
    out = []
    pts = [0.0, 1.0]
    if trials:
        pts = [0.0, trials[0][0], 1.0]
    n = len(trials)
    stop_at = None          # number of trials after which the accuracy criterion first holds
    for k in range(1, n):
        xk = trials[k][0]
        t = None
        for j in range(1, len(pts)):
            if LT(xk, pts[j]):
                t = j
                break
        if t is None:
            return [('STOP: trial inside the partition', False)]
        d = holder(pts[t] - pts[t - 1], N)
        if stop_at is None and bool_of(LT(d, eps)):
            stop_at = k + 1
        pts.insert(t, xk)
    exp = iters_limit if stop_at is None else min(stop_at, iters_limit)
    exp = max(exp, n_before_solve, 1)
    out.append(('STOP: Solve ends exactly when the accuracy criterion first holds or the budget is exhausted (expected %d trials)' % exp,
                n == exp))
    out.append(('BUDGET: the number of evaluations never exceeds itersLimit', n <= max(iters_limit, n_before_solve)))
    return out


def guard_clauses(mods, solver, eps, L, it, md):
    s = solver
    s.method.parameters.eps = eps
    s.method.parameters.itersLimit = L
    s.method.iterationsCount = it
    s.searchData.solution.solutionAccuracy = md
    stop = s.method.CheckStopCondition()
    exp = bool_of(it >= L) if md == INF else (bool_of(md < eps) or bool_of(it >= L))
    out = [('C03 GUARD: CheckStopCondition is exactly "accuracy < eps or iterations >= itersLimit"', bool(stop) == exp),
           ('C03 GUARD: the stop flag mirrors the returned value', s.method.stop is stop)]
    if not stop:
        out.append(('C03 RANK: under the loop guard the ranking function itersLimit - iterations is positive', L - it > 0))
    return out


def loop_clauses(mods, solver, pre, eps, L, prints):
    """Process.Solve from an invariant state with budget for at most one more iteration (L <= iterations + 1)."""
    prob = solver.problem
    it0, md0 = pre['iterations'], pre['min_delta']
    n0 = len(prob.started)
    sol = solver.Solve()
    n1 = len(prob.started)
    stopped_before = bool_of(it0 >= L) if md0 == INF else (bool_of(md0 < eps) or bool_of(it0 >= L))
    cl = []
    if stopped_before:
        cl.append(('C03 LOOP-NOMORE: no evaluation once the stop condition holds', 'P', n1 == n0))
    else:
        cl.append(('C03 LOOP-ONE: exactly one iteration when the budget allows one more and the accuracy is not reached', 'P', n1 == n0 + 1))
        if n1 == n0 + 1:
            cl += [c for c in step_clauses(mods, solver, pre, want=('C03',))]
    cl.append(('C03 LOOP-RET: Solve returns the solver\'s solution object', 'P', sol is solver.GetResults()))
    cl.append(('C03 LOOP-NOEXC: nothing is swallowed by the exception handler of Solve', 'P',
               not any('Exception was thrown' in p for p in prints)))
    cl.append(('C03 LOOP-STOPFLAG: after Solve the stop condition holds', 'P', bool_of(solver.method.CheckStopCondition())))
    return cl, stopped_before


def fault_clauses(mods, ctx, want):
    """C16: the objective raised on one evaluation during Solve; Solve returned; the result reflects the completed trials."""
    s, prob, N = ctx['solver'], ctx['prob'], ctx['N']
    out = []
    solves = [x for x in ctx['returned'] if x[0] == 'solve']
    out.append(('C16 RETURN: Solve returns although the objective raised', len(solves) >= 1))
    if not solves:
        return out
    sol = solves[0][1]
    failed = len(prob.started) > len(prob.done)
    out.append(('C16 FAULT: the injected failure happened during this Solve', failed))
    out.append(('C16 TRIALS: the reported number of trials equals the completed evaluations', EQ(sol.numberOfGlobalTrials, len(prob.done))))
    out += [('C16 ' + l, c) for l, c in optimum_clauses(snapshot_solution(sol), prob.done, 'after the failure')]
    Ev = mods.evolvent.Evolvent

    def fresh_image(x):
        return list(Ev(ctx['lower'], ctx['upper'], N, s.evolvent.evolventDensity).GetImage(x))
    obs = observe(s)
    out += [('C16 ' + l, c) for l, c in search_info_clauses(obs, prob.done, N, image=fresh_image if (N == 1 and not ctx.get('stub_evolvent')) else None)]
    if failed and N == 1:       # for N >= 2 distinct curve coordinates may share an image (same cell): the COUNT clause carries the claim there
        fp = prob.started[len(prob.done)]
        for i, pt in enumerate(obs['points'][1:-1]):
            same = AND(*[EQ(a, b) for a, b in zip(pt, fp)])
            out.append(('C16 NOTREC: the failed point is not recorded', NOT(same)))
    if ctx.get('prints') is not None:
        out.append(('C16 PRINT: the failure is reported on stdout', any('Exception was thrown' in p for p in ctx['prints'])))
    return out


def box_clauses(mods, ctx, want):
    """C05: every evaluation (global phase and refinement) and the returned point lie inside the box; refinement never worsens
    and reports the objective at the point it returns."""
    out = []
    prob, s = ctx['prob'], ctx['solver']
    lower, upper = ctx['lower'], ctx['upper']
    for i, ys in enumerate(prob.started):
        out.append(('C05 EVALBOX: evaluation %d lies inside [lower, upper] in every coordinate' % (i + 1),
                    AND(*[AND(LE(lower[c], ys[c]), LE(ys[c], upper[c])) for c in range(len(ys))])))
    sol = snapshot_solution(s.GetResults())
    bp = sol['best_point']
    if bp is not None and prob.done:
        out.append(('C05 RESBOX: the returned solution point lies inside the box',
                    AND(*[AND(LE(lower[c], bp[c]), LE(bp[c], upper[c])) for c in range(len(bp))])))
    ng = sol['trials']
    if sol['local_trials'] and concrete(ng) and 0 < ng <= len(prob.done):
        gbest = None
        for (pt, v) in prob.done[:ng]:
            if gbest is None or bool_of(LT(v, gbest)):
                gbest = v
        out.append(('C05 NOWORSE: refinement never returns a value worse than the best global-phase trial', LE(sol['best_value'], gbest)))
        out += [('C05 ' + l, c) for l, c in optimum_clauses(sol, prob.done, 'after refinement') if l.startswith('BEST-EVALUATED') or l.startswith('BEST-VALUE')]
        out.append(('C05 LOCALCOUNT: the reported number of local trials is the number of refinement evaluations (the final re-evaluation aside)',
                    EQ(sol['local_trials'], len(prob.done) - ng - 1)))
    return out


def scenario_clauses(mods, ctx, want):
    s, prob, L, N, r = ctx['solver'], ctx['prob'], ctx['listener'], ctx['N'], ctx['r']
    Ev = mods.evolvent.Evolvent
    lower, upper = ctx['lower'], ctx['upper']

    def fresh_image(x):
        return list(Ev(lower, upper, N, s.evolvent.evolventDensity).GetImage(x))
    out = run_clauses(mods, s, prob, L, [w for w in want if w in ('C02', 'C04', 'C06', 'C03')], r, N,
                      fresh_image=fresh_image) if L is not None else []
    cfg = ctx['cfg']
    if 'C03' in want and L is not None:
        trials = trials_of(L)
        solves = [x for x in ctx['returned'] if x[0] == 'solve']
        if solves:
            first = solves[0]
            out += [('C03 ' + l, c) for l, c in stop_clauses(trials[:first[4]] if not cfg.get('refine') else trials, ctx['eps'], cfg.get('iters_limit', 10 ** 6), N, n_before_solve=first[3])]
            if not cfg.get('refine'):
                out.append(('C03 RETURN: Solve returns the solution with the reported number of trials = evaluations made',
                            AND(first[2]['trials'] == first[4], len(prob.done) >= first[4] - (1 if cfg.get('fail') else 0))))
            for later in solves[1:]:
                out.append(('C03 AGAIN: Solve on a finished solver performs no further trial', later[3] == later[4]))
        if ctx['prints'] is not None and not cfg.get('fail'):
            out.append(('C03 NOEXC: no internal exception is swallowed during Solve', not any('Exception was thrown' in p for p in ctx['prints'])))
    if 'C16' in want:
        out += fault_clauses(mods, ctx, want)
    if 'C05' in want:
        out += box_clauses(mods, ctx, want)
    if 'C04' in want:
        for (kind, sol, snap, n0, n1) in ctx['returned']:
            if kind == 'solve':
                out += [('C04 ' + l, c) for l, c in optimum_clauses(snapshot_solution(sol), prob.done,
                                                                     'in the returned Solution' + (' (after refinement)' if cfg.get('refine') else ''))]
    return out


# ----------------------------------------------------------------------------------------------
# self-composition: several fresh solvers on the SAME objective, different call patterns (C11, C12, C13)
def compose_run(mods, cfg, objective_factory, r, eps, prints=None):
    """cfg['variants']: list of dicts overriding cfg (script, overrides, console, sibling ...).  One fresh solver per variant."""
    ctxs = []
    for v in cfg['variants']:
        c = dict(cfg)
        c.update(v)
        c.pop('variants', None)
        ctxs.append(run_scenario(mods, c, objective_factory(), r, eps, prints=prints))
    return ctxs


def history(ctx):
    """(x, z, point) of every trial in evaluation order, from the solver's own record (public getters) and the call log."""
    s = ctx['solver']
    items = list(s.searchData._allTrials)
    inner = [it for it in items if it.GetIndex() == 0]
    return [(it.GetX(), it.GetZ(), list(it.GetY().floatVariables)) for it in inner]


def same_history(ha, hb, label, upto=None):
    out = []
    n = min(len(ha), len(hb)) if upto is None else upto
    for i in range(n):
        if i >= len(ha) or i >= len(hb):
            out.append((label, False))
            break
        conds = [EQ(ha[i][0], hb[i][0]), EQ(ha[i][1], hb[i][1])] + [EQ(a, b) for a, b in zip(ha[i][2], hb[i][2])]
        out.append((label, AND(*conds)))
    return out


def batching_clauses(mods, ctxs, want):
    """C11.  ctxs[0] = reference: Solve() alone.  Others: DoGlobalIteration batches (K in total), then Solve, then Solve."""
    out = []
    ref = ctxs[0]
    href = [p for p in ref['prob'].done]
    T = len(href)
    for ctx in ctxs[1:]:
        cfg = ctx['cfg']
        K = sum(st[1] for st in cfg['script'] if st[0] == 'iter')
        h = ctx['prob'].done
        exp = max(K, T)
        out.append(('C11 LENGTH: batches of %d iterations + Solve end where Solve alone ends (or at the batch total if that is later)' % K,
                    len(h) == exp and len(ctx['prob'].started) == exp))
        for i in range(min(len(h), T)):
            out.append(('C11 SEQUENCE: trial %d is the same however the iterations are batched' % (i + 1),
                        AND(EQ(h[i][1], href[i][1]), *[EQ(a, b) for a, b in zip(h[i][0], href[i][0])])))
        solves = [x for x in ctx['returned'] if x[0] == 'solve']
        for later in solves[1:]:
            out.append(('C11 AGAIN: Solve on a finished solver performs no further global trial', later[3] == later[4]))
        if solves and ref['returned']:
            a, b = solves[0][2], ref['returned'][0][2]
            if len(h) == T:
                out.append(('C11 RESULT: the result does not depend on the batching',
                            AND(EQ(a['best_value'], b['best_value']), a['trials'] == b['trials'], EQ(a['accuracy'], b['accuracy']),
                                *[EQ(p, q) for p, q in zip(a['best_point'] or [], b['best_point'] or [])])))
    return out


def isolation_clauses(mods, ctxs, want):
    """C12.  ctxs[0] = the main solver run alone; others: the same script with another solver created / iterated in between."""
    out = []
    ref = ctxs[0]
    href = ref['prob'].done
    sib_ref = None
    for ctx in ctxs[1:]:
        # when the other solver works on the SAME Problem object the call log is shared: read this solver's trials from its own record
        h = [(pt, z) for (x, z, pt) in history(ctx)] if ctx.get('sibling_shares_problem') else ctx['prob'].done
        out.append(('C12 LENGTH: the solver makes the same number of trials with or without other solvers around', len(h) == len(href)))
        for i in range(min(len(h), len(href))):
            out.append(('C12 SEQUENCE: trial %d is unchanged by other solvers' % (i + 1),
                        AND(EQ(h[i][1], href[i][1]), *[EQ(a, b) for a, b in zip(h[i][0], href[i][0])])))
        oa, ob = observe(ctx['solver']), observe(ref['solver'])
        out.append(('C12 RECORD: the search information is unchanged by other solvers',
                    AND(len(oa['xs']) == len(ob['xs']), *[EQ(a, b) for a, b in zip(oa['xs'], ob['xs'])])))
        for (ka, sa, snap_a, _, _), (kb, sb, snap_b, _, _) in zip(ctx['returned'], ref['returned']):
            now = snapshot_solution(sa)
            out.append(('C12 KEPT: a Solution obtained earlier still reports its own optimum after other solvers ran',
                        AND(EQ(now['best_value'], snap_a['best_value']), now['trials'] == snap_a['trials'],
                            *[EQ(p, q) for p, q in zip(now['best_point'] or [], snap_a['best_point'] or [])])))
            out.append(('C12 RESULT: the result equals the result of running alone',
                        AND(EQ(snap_a['best_value'], snap_b['best_value']), snap_a['trials'] == snap_b['trials'],
                            *[EQ(p, q) for p, q in zip(snap_a['best_point'] or [], snap_b['best_point'] or [])])))
        # the other solver is not disturbed either: compare with the same sibling run alone
        sib = ctx.get('sibling')
        if sib is not None and ctx['cfg'].get('sibling_alone_script'):
            if sib_ref is None or sib_ref[0] != (ctx['cfg']['sibling'], tuple(ctx['cfg']['sibling_alone_script'])):
                c2 = dict(ctx['cfg'])
                c2['script'] = []
                alone = run_scenario(mods, c2, lambda ys, i: 0.0, ctx['r'], ctx['eps'])
                for st in ctx['cfg']['sibling_alone_script']:
                    if st[0] == 'other':
                        alone['sibling'].DoGlobalIteration(st[1])
                    elif st[0] == 'other-solve':
                        alone['sibling'].Solve()
                sib_ref = ((ctx['cfg']['sibling'], tuple(ctx['cfg']['sibling_alone_script'])), alone['sibling'].problem.done)
            hs = sib.problem.done
            out.append(('C12 OTHER: the other solver makes the same trials as when it runs alone',
                        AND(len(hs) == len(sib_ref[1]), *[AND(EQ(a[1], b[1]), *[EQ(p, q) for p, q in zip(a[0], b[0])]) for a, b in zip(hs, sib_ref[1])])))
    return out


def console_expected(sol_snap, N):
    """the lines ConsoleOutputer.printResult must contain for this solution (same format calls as a user would read)"""
    w = 20 * N
    return [
        "|{:>29} {:<{width}}|".format("global iteration count: ", sol_snap['trials'], width=w),
        "|{:>29} {:<{width}}|".format("local iteration count: ", sol_snap['local_trials'], width=w),
        "|{:>29} {:<{width}}|".format("solution point: ", str(sol_snap['best_point_obj']), width=w),
        "|{:>29} {:<{width}.8f}|".format("solution value: ", sol_snap['best_value'], width=w),
        "|{:>29} {:<{width}.8f}|".format("accuracy: ", sol_snap['accuracy'], width=w),
    ]


def listener_clauses(mods, ctxs, want):
    """C13.  ctxs[0] = reference without listeners; the others carry a recording listener (subset of callbacks overridden)
    and / or the shipped console listener."""
    out = []
    ref = ctxs[0]
    href = ref['prob'].done
    for ctx in ctxs[1:]:
        cfg = ctx['cfg']
        h = ctx['prob'].done
        name = 'overrides=%s console=%s' % (','.join(cfg.get('overrides') or []) or '-', cfg.get('console'))
        out.append(('C13 SAME-LENGTH: attaching listeners does not change the number of trials [%s]' % name, len(h) == len(href)))
        for i in range(min(len(h), len(href))):
            out.append(('C13 SAME-TRIALS: attaching listeners does not change trial %d' % (i + 1),
                        AND(EQ(h[i][1], href[i][1]), *[EQ(a, b) for a, b in zip(h[i][0], href[i][0])])))
        for (ka, sa, snap_a, _, _), (kb, sb, snap_b, _, _) in zip(ctx['returned'], ref['returned']):
            out.append(('C13 SAME-RESULT: attaching listeners does not change the result',
                        AND(EQ(snap_a['best_value'], snap_b['best_value']), snap_a['trials'] == snap_b['trials'],
                            EQ(snap_a['local_trials'], snap_b['local_trials']), EQ(snap_a['accuracy'], snap_b['accuracy']),
                            *[EQ(p, q) for p, q in zip(snap_a['best_point'] or [], snap_b['best_point'] or [])])))
        L = ctx['listener']
        if L is not None:
            ov = cfg['overrides']
            ev = L.events
            n_calls = sum(1 for st in cfg['script'] if st[0] == 'iter')
            solves = [x for x in ctx['returned'] if x[0] == 'solve']
            if 'before' in ov:
                b = [e for e in ev if e[0] == 'before']
                out.append(('C13 BEFORE: told exactly once, before the first trial', len(b) == 1 and ev[0][0] == 'before' and b[0][1] == 0))
            else:
                out.append(('C13 BEFORE: a callback that is not overridden records nothing', not any(e[0] == 'before' for e in ev)))
            if 'iter' in ov:
                its = [e for e in ev if e[0] == 'iter']
                # one notification per DoGlobalIteration call: the scripted batches, then one per iteration of the Solve loop
                sizes = [st[1] for st in cfg['script'] if st[0] == 'iter']
                done_in_batches = sum(sizes)
                n_total = ctx['solver'].GetResults().numberOfGlobalTrials     # refinement evaluations are not iterations
                exp_sizes = sizes + [1] * max(0, n_total - done_in_batches)
                out.append(('C13 ITER-COUNT: one OnEndIteration per DoGlobalIteration call with exactly the new trials of that call',
                            [len(e[1]) for e in its] == exp_sizes))
                off = 0
                for e in its:
                    for p in e[1]:
                        if off < len(h):
                            out.append(('C13 ITER-TRIALS: the notified trials are the new trials, in order',
                                        AND(EQ(p[1], h[off][1]), *[EQ(a, b) for a, b in zip(p[2], h[off][0])])))
                        off += 1
            if 'stop' in ov:
                st = [e for e in ev if e[0] == 'stop']
                out.append(('C13 STOP: told once per Solve, after the last trial', len(st) == len(solves) and (not st or ev[-1][0] == 'stop')))
                for e, sv in zip(st, solves):
                    a, b = e[2], snapshot_solution(sv[1])
                    out.append(('C13 STOP-SOLUTION: OnMethodStop receives the final solution',
                                AND(EQ(a['best_value'], b['best_value']), a['trials'] == b['trials'],
                                    *[EQ(p, q) for p, q in zip(a['best_point'] or [], b['best_point'] or [])])))
        if cfg.get('console') and ctx.get('prints') is not None:
            solves = [x for x in ctx['returned'] if x[0] == 'solve']
            if solves:
                snap = snapshot_solution(solves[-1][1])
                snap['best_point_obj'] = solves[-1][1].bestTrials[0].point.floatVariables
                text = list(ctx['prints'])
                for line in console_expected(snap, ctx['N']):
                    out.append(('C13 CONSOLE: the final report shows the solution\'s trial counts, point, value and accuracy (mode %s)' % cfg['console'],
                                any(line in p for p in text)))
    return out
