"""C03 -- termination, stop criterion and trial budget (DESIGN.md section 5, C03).

S   one real DoGlobalIteration(1) from an arbitrary invariant state (ABSTRACT): iterations, reported trials and actual
    evaluations all advance by exactly one; reported accuracy becomes min(previous, Hoelder length of the interval that was
    subdivided) -- with the previous accuracy both infinite and an arbitrary positive real.
LOOP the real Process.Solve from an arbitrary invariant state with symbolic eps, itersLimit and accuracy, budget for at most one
    more iteration: no evaluation once the stop condition holds, exactly one otherwise, nothing swallowed, stop flag set.
    Ranking function itersLimit - iterations decreases by one per pass (STEP-COUNT) and is positive under the loop guard
    (read off CheckStopCondition by the solver) => termination for every itersLimit.
RUN  scenarios through the public interface (EXACT): fresh solvers with itersLimit in {1,2,3}, symbolic eps in (0,2) (so
    eps >= 1 is inside) and arbitrary objective values; reachable concrete prefixes followed by arbitrary values with the
    budget binding or the accuracy criterion (symbolic eps) firing; Solve after DoGlobalIteration batches; Solve twice.
    Reference: the statement's rule recomputed from the observed history.
"""
import os
import sys

import z3

sys.path.insert(0, os.path.dirname(os.path.dirname(os.path.abspath(__file__))))
from harness import agp, agpnative as an  # noqa: E402
from symex import core, report  # noqa: E402
from symex.core import Explorer, Sym, SymBool  # noqa: E402

PID = 'C03'
WANT = ('C03',)


def loop_job(N, k, recalc, md_inf, want=WANT):
    """Process.Solve from Inv with budget for at most one more iteration."""
    st = agp.setup()
    mods = st['mods']

    def h(ex):
        del agp.PRINTS[:]
        eps = ex.real('eps')
        L = ex.int('iters_limit')
        ex.assume(z3.And(eps.t > 0, L.t >= 1))
        solver, prob, items, info = agp.inv_state(ex, N, k, eps=eps, iters_limit=L, recalc=recalc, md_inf=md_inf, best=0 if k == 1 else None)
        it0 = info['spec']['iterations']
        ex.assume(L.t <= it0.t + 1)
        pre = an.pre_snapshot(mods, solver, items, N)
        cl, stopped_before = an.loop_clauses(mods, solver, pre, eps, L, agp.PRINTS)
        ex.tag('solve-on-a-finished-state' if stopped_before else 'solve-does-one-iteration')
        agp.prove_all(ex, cl, only=want)
        return None
    ex = Explorer(mode='ABSTRACT', name='LOOP N=%d k=%d' % (N, k), timeout_ms=30000)
    ex.explore(h, sample_every=9)
    return agp.summary(ex, 'Solve from Inv, at most one more iteration: N=%d, %d evaluated trials, recalc=%s, accuracy_inf=%s' % (N, k, recalc, md_inf),
                       {'N': N, 'k': k}, {'N': N, 'k': k, 'level': 'step', 'recalc': recalc, 'md_inf': md_inf, 'best': None, 'solve': True})


def guard_job():
    """The loop guard implies a positive ranking function and the stop rule is exactly `accuracy < eps or iterations >= limit`."""
    st = agp.setup()
    mods = st['mods']

    def h(ex):
        eps = ex.real('eps')
        L = ex.int('iters_limit')
        it = ex.int('iterations')
        inf = bool(ex.bool('accuracy_is_inf'))
        md = an.INF if inf else ex.real('min_delta')
        s, prob = agp.new_solver(ex, 1, lambda ys, i: 0.0, 2.5, eps, L)
        agp.prove_all(ex, an.guard_clauses(mods, s, eps, L, it, md))
        ex.tag('guard')
    ex = Explorer(mode='EXACT', name='GUARD', timeout_ms=30000)
    ex.explore(h, sample_every=1)
    return agp.summary(ex, 'CheckStopCondition vs the stop rule; ranking function', None, {'level': 'guard', 'N': 1})


def run_job(cfg, label):
    return agp.scenario_job(cfg, WANT, label=label)


def scenarios(run):
    quick = run.quick
    out = []
    base = {'overrides': ['before', 'iter', 'stop'], 'sibling': 'other'}
    # fresh solvers, tiny budgets, every eps in (0, 2)
    for N in (1, 2):
        for L in (1, 2, 3):
            cfg = dict(base, N=N, r=2.5, seed=0, kpre=0, nsym=L + 1, script=[('solve',), ('solve',)], iters_limit=L, eps='sym',
                       density=2 if N > 1 else None, tags=['fresh-budget-%d' % L])
            out.append((cfg, 'fresh Solve: N=%d itersLimit=%d, eps symbolic in (0,2), all objective values symbolic' % (N, L)))
    seeds = [(run.seed * 5 + i) % 50 for i in range(3 if quick else 8)] + [3]
    for sd in seeds:
        for kpre in ((2, 4) if quick else (2, 3, 4, 5, 6)):
            # budget binds: itersLimit = kpre + 2
            cfg = dict(base, N=1, r=2.5, seed=sd, kpre=kpre, nsym=3, script=[('solve',), ('solve',)], iters_limit=kpre + 2, eps='sym',
                       tags=['prefix-solve'])
            out.append((cfg, 'Solve with itersLimit=%d on prefix f#%d (%d concrete values), eps symbolic' % (kpre + 2, sd, kpre)))
            # batches first, then Solve
            cfg = dict(base, N=1, r=1.3, seed=sd, kpre=kpre, nsym=3, script=[('iter', 1), ('iter', kpre - 1), ('solve',), ('solve',)],
                       iters_limit=kpre + 2, eps='sym', tags=['batches-then-solve'])
            out.append((cfg, 'DoGlobalIteration(1), (%d) then Solve, itersLimit=%d, prefix f#%d, eps symbolic' % (kpre - 1, kpre + 2, sd)))
    # a coarse evolvent density must not influence the accuracy stop (N = 1: the curve is the segment itself)
    for sd in seeds[:2]:
        cfg = dict(base, N=1, r=2.5, seed=sd, kpre=2, nsym=3, script=[('solve',)], iters_limit=4, eps='sym', density=2, tags=['coarse-density'])
        out.append((cfg, 'Solve with evolventDensity=2, itersLimit=4, prefix f#%d, eps symbolic' % sd))
    # a long run on a coarse 2-D evolvent: several trials share an image point; every one of them is an evaluation and a reported trial
    for sd in (0, 1):       # fixed prefix functions: in 2-D the lengths are square roots, and the cost of the exact run varies a lot between functions
        cfg = dict(base, N=2, r=2.5, seed=sd, kpre=13, nsym=1, script=[('iter', 12), ('solve',)], iters_limit=14, eps=1e-9, density=2, tags=['coarse-2d'])
        out.append((cfg, 'N=2 density 2: 14 trials of a concrete run (trials sharing an image), prefix f#%d' % sd))
    # refinement must not touch the count of global trials
    for sd in seeds[:2]:
        cfg = dict(base, N=1, r=2.5, seed=sd, kpre=3, nsym=2, script=[('solve',)], iters_limit=4, eps=1e-9, refine=True, nm_points=1, tags=['with-refinement'])
        out.append((cfg, 'Solve(refineSolution=True), itersLimit=4, prefix f#%d: global trial count with refinement' % sd))
    # stepping beyond the budget, then Solve: nothing more
    cfg = dict(base, N=1, r=2.5, seed=seeds[0], kpre=3, nsym=3, script=[('iter', 4), ('solve',)], iters_limit=2, eps=1e-9, tags=['over-budget'])
    out.append((cfg, 'DoGlobalIteration(4) with itersLimit=2, then Solve'))
    return out


def main():
    run = report.Runner(PID, design_ref='5/C03')
    agp.describe(run)
    agp.describe_stubs(run)
    quick = run.quick
    jobs = [(guard_job, ())]
    plan = [(1, 1), (1, 2), (2, 2)] if quick else [(1, 1), (1, 2), (2, 2), (3, 2), (1, 3), (2, 3)]
    jobs += agp.step_jobs(WANT, plan, md_inf=(True, False))
    for (N, k) in ([(1, 1), (1, 2)] if quick else [(1, 1), (1, 2), (2, 2), (1, 3)]):
        for recalc in (False, True):
            for md_inf in (True, False):
                jobs.append((loop_job, (N, k, recalc, md_inf)))
    for cfg, label in scenarios(run):
        jobs.append((run_job, (cfg, label)))
    run.bound(step='%s (N, evaluated trials); everything else symbolic, incl. iterations, reported trials, previous accuracy (inf or any positive real)' % plan,
              solve_loop='from Inv with itersLimit <= iterations + 1 (at most one more iteration), eps > 0 symbolic',
              scenarios='fresh: N in {1,2}, itersLimit in {1,2,3}, eps in (0,2); prefixes: 2..6 concrete values + 2 arbitrary values, '
                        'itersLimit = prefix + 2, eps in (0,2); objective values in [-1000, 1000]')
    run.not_covered('floats: intervals shrinking below float resolution make CalculateNextPointCoordinate raise, which Solve swallows '
                    '(a stop "earlier" than the rule; outside the real-arithmetic claim); refineSolution=True (C05); '
                    'more than one remaining iteration from a symbolic state (covered by induction: each pass is one STEP)')
    run.parallel(jobs)
    agp.confirm(run, WANT)
    run.finish('evaluations = reported trials <= itersLimit; Solve stops exactly when the accuracy criterion first holds or the budget is '
               'exhausted; reported accuracy = smallest Hoelder length subdivided; termination by a ranking function',
               vacuity=['guard', 'recalc-pending', 'recalc-not-pending', 'solve-on-a-finished-state', 'solve-does-one-iteration',
                        'fresh-budget-1', 'fresh-budget-2', 'fresh-budget-3', 'prefix-solve', 'batches-then-solve', 'over-budget', 'coarse-density', 'coarse-2d', 'with-refinement',
                        'right-boundary-interval', 'interior-interval'])


if __name__ == '__main__':
    main()
