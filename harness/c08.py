"""C08 -- the evolvent is a continuous (Hoelder) space-filling curve (DESIGN.md section 5, C08).

Per-level lemmas on the sliced forward body, chained steps, from EVERY orientation state S (solver case split),
digits pinned through symbolic d with floor(2^N d) = k:

 G  digits k and k+1 from the same state move to sub-cells whose sign vectors differ in exactly one axis a
 F  facing corners: let X(S') = sign vector produced by the last digit from S', E(S') that of digit 0; for the children
    S_k, S_{k+1}:  X(S_k) and E(S_{k+1}) agree on every axis != a and point toward each other on a
 P  persistence: E(step(S,0)) = E(S) and X(step(S,last)) = X(S)

Induction on depth (paper step, in DESIGN.md): cells of consecutive subintervals at any density differ by one cell
width in exactly one coordinate.  Nesting is C07's lemma A (each level moves by a quarter of the parent's width).
Bounded direct confirmations on the whole real GetImage: adjacency for all consecutive pairs and nesting m -> m+1
(N*m <= 8 / 12), and the Hoelder inequality itself on path pairs (N=2: m <= 2 / 3; N=3: m <= 1 / 2).
"""
import os
import sys

import z3

sys.path.insert(0, os.path.dirname(os.path.dirname(os.path.abspath(__file__))))
from harness import evo, c07  # noqa: E402
from harness.evo import F, T, I  # noqa: E402
from symex import core, report  # noqa: E402
from symex.core import Explorer  # noqa: E402


def _digit_d(ex, name, k, nexp):
    d = ex.real(name)
    ex.assume(z3.And(d.t >= F(k, nexp), d.t < F(k + 1, nexp)))
    return d


def _signs(ex, y2, y0, r2, N, label):
    """sign vector of one level's move, as concrete ints proven by the solver."""
    out = []
    for i in range(N):
        dy = T(y2[i]) - T(y0[i])
        if ex.find(dy == T(r2)) is not None and ex.find(dy != T(r2)) is None:
            out.append(1)
        elif ex.find(dy == -T(r2)) is not None and ex.find(dy != -T(r2)) is None:
            out.append(-1)
        else:
            ex.prove(False, label + ': move is +-r/2 on every axis')
            out.append(0)
    return out


def gfp_job(N, it0, w0):
    evo.setup()
    nexp = 2 ** N

    def h(ex):
        ev = evo.mk_evolvent(N, 3)
        it = ex.int('it')
        ex.assume(it.t == it0)
        itc = ex.concretize(it.t)
        iw = []
        for i in range(N):
            w = ex.int('iw%d' % i)
            ex.assume(z3.Or(w.t == 1, w.t == -1))
            if i == 0:
                ex.assume(w.t == w0)
            iw.append(ex.concretize(w.t))
        kk = ex.int('k')
        ex.assume(z3.And(kk.t >= 0, kk.t <= nexp - 2))
        k = ex.concretize(kk.t)
        x = ex.real('x')
        r = ex.real('r')
        ex.assume(z3.And(x.t >= 0, x.t < 1, r.t > 0))
        y0 = [ex.real('y%d' % i) for i in range(N)]
        zero = [0.0] * N

        def step(state, digit, tag, base):
            s_it, s_iw, s_r = state
            d = _digit_d(ex, 'd_' + tag, digit, nexp)
            d2, r2, it2, iw2, iis, y2 = evo.fwd_level(ev, x, d, s_r, s_it, s_iw, base)
            sg = _signs(ex, y2, base, r2, N, tag)
            return (it2, [int(core._const_of(z3.simplify(I(w)))) if isinstance(w, core.Sym) else int(w) for w in iw2], r2), sg, y2

        S = (itc, iw, r)
        Sk, sk, yk = step(S, k, 'k', y0)
        Sk1, sk1, yk1 = step(S, k + 1, 'k1', y0)
        diff = [i for i in range(N) if sk[i] != sk1[i]]
        ex.prove(len(diff) == 1 and 0 not in sk and 0 not in sk1, 'G: consecutive digits move to face-adjacent sub-cells',
                 {'N': N, 'state': [itc, iw], 'k': k, 'signs': [sk, sk1]})
        if len(diff) != 1:
            return None
        a = diff[0]
        # F: exit corner of child k faces entry corner of child k+1
        _, Xk, _ = step(Sk, nexp - 1, 'Xk', yk)
        _, Ek1, _ = step(Sk1, 0, 'Ek1', yk1)
        facing = all(Xk[i] == Ek1[i] for i in range(N) if i != a) and Xk[a] == sk1[a] and Ek1[a] == sk[a] and Xk[a] == -Ek1[a]
        ex.prove(facing, 'F: exit corner of child k faces the entry corner of child k+1',
                 {'N': N, 'state': [itc, iw], 'k': k, 'a': a, 'X': Xk, 'E': Ek1, 'sk': sk, 'sk1': sk1})
        # P: persistence of entry / exit corners (only needs the state, do it once per state: k == 0)
        if k == 0:
            S0, E_S, y00 = step(S, 0, 'E', y0)
            _, E_S0, _ = step(S0, 0, 'E0', y00)
            ex.prove(E_S == E_S0, 'P: entry corner persists under digit 0', {'N': N, 'state': [itc, iw]})
            SL, X_S, y0L = step(S, nexp - 1, 'X', y0)
            _, X_SL, _ = step(SL, nexp - 1, 'XL', y0L)
            ex.prove(X_S == X_SL, 'P: exit corner persists under the last digit', {'N': N, 'state': [itc, iw]})
            ex.tag('P')
        ex.tag('GF')
        return (itc, tuple(iw), k, a)

    ex = Explorer(mode='EXACT', name='GFP N=%d it=%d w0=%d' % (N, it0, w0), timeout_ms=30000)
    ex.explore(h, sample_every=61)
    s = ex.summary()
    s['job'] = 'G/F/P lemmas N=%d it=%d iw0=%+d' % (N, it0, w0)
    s['bounds'] = {'N': N, 'states': 'it=%d iw0=%+d, other signs all' % (it0, w0), 'digit pairs': 'all (k,k+1)', 'r,y,d': 'symbolic'}
    for c in s['cex']:
        c['detail'].setdefault('N', N)
    return s


def hoelder_job(N, m, part, parts):
    """Direct check of ||y(x')-y(x'')||^2N <= (4(N+3))^N |x'-x''|^2 for |x'-x''| >= 2^-Nm on all path pairs."""
    lower, upper = [0.0] * N, [1.0] * N
    K = 2 ** (N * m)
    C = 4 * (N + 3)

    def h(ex):
        x1 = ex.real('x1')
        x2 = ex.real('x2')
        lo, hi = F(part, parts), F(part + 1, parts)
        ex.assume(z3.And(x1.t >= lo, x1.t < hi) if part < parts - 1 else z3.And(x1.t >= lo, x1.t <= 1))
        ex.assume(z3.And(x2.t >= 0, x2.t <= 1, x2.t - x1.t >= F(1, K)))
        ev = evo.mk_evolvent(N, m, lower, upper)
        ya = list(ev.GetImage(x1))
        yb = list(ev.GetImage(x2))
        n2 = 0
        for c in range(N):
            dy = yb[c] - ya[c]
            n2 = n2 + dy * dy
        n2t = T(n2)
        lhs = n2t
        for _ in range(N - 1):
            lhs = lhs * n2t
        dx = x2.t - x1.t
        ex.prove(lhs <= (C ** N) * dx * dx, 'H: Hoelder inequality on this pair of paths', {'N': N, 'm': m})
        ex.tag('pair')
        return None
    ex = Explorer(mode='EXACT', name='HOELDER N=%d m=%d' % (N, m), timeout_ms=30000)
    ex.explore(h, sample_every=max(1, K * K // parts // 4))
    s = ex.summary()
    s['job'] = 'Hoelder inequality N=%d m=%d part %d/%d' % (N, m, part, parts)
    s['bounds'] = {'N': N, 'm': m, 'pairs': 'all path pairs with x2-x1 >= 2^-Nm'}
    for c in s['cex']:
        c['detail'].setdefault('N', N)
        c['detail'].setdefault('m', m)
    return s


def scale_job():
    def h(ex):
        a, b, y1, y2, S = [ex.real(n) for n in ('a', 'b', 'y1', 'y2', 'S')]
        ex.assume(z3.And(a.t < b.t, b.t - a.t <= S.t, y1.t > -F(1, 2), y1.t < F(1, 2), y2.t > -F(1, 2), y2.t < F(1, 2)))
        outs = []
        for y in (y1, y2):
            ev = evo.mk_evolvent(1, 2, [a], [b])
            ev.yValues = evo.shims.SArr([y], 'f')
            ev._Evolvent__TransformP2D()
            outs.append(T(ev.yValues[0]))
        d = outs[0] - outs[1]
        dy = y1.t - y2.t
        ex.prove(z3.And(d <= z3.If(dy >= 0, dy, -dy) * S.t, -d <= z3.If(dy >= 0, dy, -dy) * S.t), 'SCALE: box map scales distances by at most the largest side')
        return None
    ex = Explorer(mode='EXACT', logic='QF_NRA', name='SCALE', timeout_ms=60000)
    ex.explore(h, sample_every=1)
    s = ex.summary()
    s['job'] = 'box scaling'
    return s


def main():
    run = report.Runner('C08', design_ref='5/C08')
    evo.describe(run)
    Ns = [2, 3, 4] if run.quick else [2, 3, 4, 5]
    wholes = [(2, 2), (2, 3), (3, 2), (2, 4), (4, 2)] if run.quick else [(2, 2), (2, 3), (3, 2), (2, 4), (4, 2), (3, 3), (2, 5), (5, 2), (2, 6), (3, 4), (4, 3)]
    hoelder = [(2, 1), (2, 2), (3, 1)] if run.quick else [(2, 1), (2, 2), (2, 3), (3, 1), (3, 2)]
    run.bound(gfp_lemmas_N=Ns, gfp='every orientation state and every digit pair (k,k+1); holds per level hence for every density m',
              whole_function_adjacency_N_m=wholes, hoelder_inequality_N_m=hoelder)
    run.not_covered('the step from face-adjacency + nesting to the inequality with constant 2*sqrt(N+3) for N*m beyond the direct bound is the '
                    'classical argument (cited), not a solver query')
    run.not_covered('G/F/P for N=5 only in the thorough tier; N >= 6')
    jobs = [(scale_job, ())]
    for N in Ns:
        for it0 in range(N):
            for w0 in (1, -1):
                jobs.append((gfp_job, (N, it0, w0)))
    parts_of = {}
    for (N, m) in wholes:
        K = 2 ** (N * m)
        parts = 1 if K <= 64 else 4 if K <= 256 else 16 if K <= 1024 else 32
        parts_of[(N, m)] = parts
        for p in range(parts):
            jobs.append((c07.whole_job, (N, m, p, parts)))
    for (N, m) in hoelder:
        K = 2 ** (N * m)
        parts = 1 if K <= 8 else 16 if K <= 16 else 64
        for p in range(parts):
            jobs.append((hoelder_job, (N, m, p, parts)))
    res = run.parallel(jobs)
    # ---- adjacency and nesting across paths of the whole-function runs
    allcells = {}
    for (N, m) in wholes:
        rs = [r for r in res if r.get('job', '').startswith('whole-function GetImage N=%d m=%d ' % (N, m))]
        if any(r.get('error') for r in rs):
            continue
        cells, problems = c07.merge_whole(run, rs, N, m)
        K = 2 ** (N * m)
        if not problems:
            allcells[(N, m)] = cells
            for i in range(K - 1):
                a, b = cells[str(i)], cells[str(i + 1)]
                dif = sorted(abs(p - q) for p, q in zip(a, b))
                if dif != [0] * (N - 1) + [1]:
                    problems.append('cells of subintervals %d and %d are not face-adjacent: %s %s' % (i, i + 1, a, b))
                    break
        run.extra.setdefault('adjacent_pairs_checked', {})['N=%d,m=%d' % (N, m)] = K - 1
        if problems:
            rp = evo.oracle_replay(run, 'adj-N%d-m%d' % (N, m), N, m, 'C07,C08')
            ok, out = run.run_replay(rp)
            if ok:
                run.confirmed('C08:whole:N=%d,m=%d' % (N, m), 'GetImage N=%d m=%d: %s | native: %s' % (N, m, problems[0], out.strip()[-300:]), rp)
            else:
                run.unconfirmed('whole N=%d m=%d: %s' % (N, m, problems), (out or '')[-300:])
    for (N, m), cells in allcells.items():
        if (N, m + 1) in allcells:
            fine = allcells[(N, m + 1)]
            for i2 in range(2 ** (N * (m + 1))):
                par = cells[str(i2 // 2 ** N)]
                if tuple(c // 2 for c in fine[str(i2)]) != tuple(par):
                    rp = evo.oracle_replay(run, 'nest-N%d-m%d' % (N, m), N, m + 1, 'C07,C08')
                    ok, out = run.run_replay(rp)
                    if ok:
                        run.confirmed('C08:nesting:N=%d,m=%d' % (N, m), 'density-%d cell of sub-subinterval %d not inside density-%d cell: %s' % (m + 1, i2, m, out.strip()[-300:]), rp)
                    else:
                        run.unconfirmed('nesting N=%d m=%d' % (N, m), (out or '')[-300:])
                    break
            run.extra.setdefault('nesting_checked', []).append('N=%d: m=%d -> %d' % (N, m, m + 1))
    done = set()
    for r, c in run.candidates():
        d = c.get('detail', {})
        N = d.get('N')
        lab = c['label']
        if (lab[:1], N) in done:
            continue
        done.add((lab[:1], N))
        if N is None:
            run.unconfirmed(lab, 'no dimension recorded')
            continue
        mmax = d.get('m') or max(2, min(4, 13 // N))
        rp = evo.oracle_replay(run, 'lemma-N%d' % N, N, mmax, 'C07,C08')
        ok, out = run.run_replay(rp)
        if ok:
            run.confirmed('C08:%s:N=%d' % (lab[:30], N), '%s fails (N=%d, %s); native witness: %s' % (lab, N, d, out.strip()[-400:]), rp)
        else:
            run.unconfirmed('%s (N=%s)' % (lab, N), 'lemma counterexample %s has no native end-to-end witness for m <= %d' % (d, mmax))
    run.finish('Gray-order adjacency (G), facing entry/exit corners (F) and their persistence (P) hold from every orientation state, so '
               'consecutive subintervals map to face-adjacent cells at every density; bounded whole-function adjacency, nesting and the '
               'Hoelder inequality itself on all path pairs', vacuity=['GF', 'P', 'pair', 'interior'])


if __name__ == '__main__':
    main()
