"""C17 -- evolvent queries are pure (DESIGN.md section 5, C17).

Self-composition on ONE real Evolvent object: every sequence of <= L operations over
{GetImage(x), GetInverseImage(y), GetPreimages(y), SetBounds(a,b)} ending in a query, all arguments symbolic
(x in [0,1], y in the current box; y supplied as a float array, a plain list, or an INT-typed array), all paths.
Obligations: the last query's result equals (term-wise) the same query on a FRESH object with the same bounds and
density; argument containers are unchanged; arrays returned by earlier queries are unchanged at the end, even though the
caller scribbles over them in between.
"""
import itertools
import os
import sys

import z3

sys.path.insert(0, os.path.dirname(os.path.dirname(os.path.abspath(__file__))))
from harness import evo  # noqa: E402
from harness.evo import F, T, I  # noqa: E402
from symex import core, report, shims  # noqa: E402
from symex.core import Explorer, Sym  # noqa: E402

OPS = ('GI', 'GII', 'GP', 'SB')
BOXSEQ = {
    1: [([-1.0], [1.0]), ([2.0], [6.0]), ([-3.0], [-1.0])],
    2: [([-1.5, 2.0], [0.5, 5.0]), ([0.0, -1.0], [4.0, 3.0]), ([5.0, 5.0], [6.0, 7.0])],
    3: [([0.0, -1.0, 2.0], [1.0, 3.0, 2.5]), ([-2.0, 0.0, 1.0], [2.0, 1.0, 9.0]), ([0.0] * 3, [1.0] * 3)],
}
KINDS = ('f', 'list', 'i')


def _terms(seq):
    return [T(v) if isinstance(v, Sym) or isinstance(v, (int, float)) else v for v in seq]


def seq_job(N, m, ops, kshift):
    evo.setup()

    def h(ex):
        boxes = BOXSEQ[N]
        bi = 0
        lower, upper = boxes[0]
        # the object under test and a BYSTANDER object are built from the same caller-owned float arrays (as Problem classes supply them)
        la0, ua0 = shims.SArr(lower, 'f'), shims.SArr(upper, 'f')
        ev = evo.mk_evolvent(N, m, la0, ua0)
        bystander = evo.mk_evolvent(N, m, la0, ua0)
        lower0, upper0 = list(lower), list(upper)
        returned = []      # (array object, snapshot of terms)
        last = None
        script = []
        for pos, op in enumerate(ops):
            if op == 'SB':
                bi += 1
                lower, upper = boxes[bi % len(boxes)]
                la, ua = shims.SArr(lower, 'f'), shims.SArr(upper, 'f')
                ev.SetBounds(la, ua)
                for c in range(N):
                    ex.prove(z3.And(T(la[c]) == F(lower[c]), T(ua[c]) == F(upper[c])), 'ARG: SetBounds does not modify its arguments')
                la[0] = 1234.5       # the caller re-uses its arrays: the object must have copied them
                ua[0] = 4321.5
                script.append(['SB', lower, upper])
                last = None
                continue
            if op == 'GI':
                x = ex.real('x%d' % pos)
                ex.assume(z3.And(x.t >= 0, x.t <= 1))
                res = ev.GetImage(x)
                script.append(['GI', 'x%d' % pos])
                last = ('GI', x, None, res, list(res))
                returned.append((res, [T(v) for v in res], pos))
                for c in range(N):       # the caller scribbles over the returned array later on
                    pass
            else:
                kind = KINDS[(pos + kshift) % 3]
                ys = []
                for c in range(N):
                    if kind == 'i':
                        y = ex.int('y%d_%d' % (pos, c))
                        lo_i = int(lower[c]) if lower[c] == int(lower[c]) else int(lower[c]) + (1 if lower[c] > 0 else 0)
                        hi_i = int(upper[c]) if upper[c] >= 0 or upper[c] == int(upper[c]) else int(upper[c]) - 1
                        ex.assume(z3.And(y.t >= lo_i, y.t <= hi_i, core.to_real(y.t) >= F(lower[c]), core.to_real(y.t) <= F(upper[c])))
                    else:
                        y = ex.real('y%d_%d' % (pos, c))
                        ex.assume(z3.And(y.t >= F(lower[c]), y.t <= F(upper[c])))
                    ys.append(y)
                arg = list(ys) if kind == 'list' else shims.SArr(ys, 'i' if kind == 'i' else 'f')
                before = [T(v) for v in arg]
                res = ev.GetInverseImage(arg) if op == 'GII' else ev.GetPreimages(arg)
                ex.prove(len(arg) == N and (kind == 'list' or arg.kind == ('i' if kind == 'i' else 'f')), 'ARG: argument container keeps its shape and type')
                for c in range(N):
                    ex.prove(T(arg[c]) == before[c], 'ARG: %s does not modify its argument' % op, {'op': op, 'kind': kind})
                script.append([op, ['y%d_%d' % (pos, c) for c in range(N)], kind])
                last = (op, ys, kind, res, None)
                if kind != 'list':
                    for c in range(N):   # the caller re-uses its argument array afterwards
                        arg[c] = 77 if kind == 'i' else 77.25
            # scribble over every array returned so far EXCEPT the newest (checked below before scribbling)
        # ---- arrays returned by earlier queries are unchanged by later ones
        for (arr, snap, pos) in returned:
            for c in range(N):
                ex.prove(T(arr[c]) == snap[c], 'RET: array returned by query %d is unchanged by later queries' % pos, {'pos': pos})
        # ---- another Evolvent built from the same bound arrays, and those arrays, are not affected by anything done to `ev`
        for c in range(N):
            ex.prove(z3.And(T(la0[c]) == F(lower0[c]), T(ua0[c]) == F(upper0[c])), 'ARG: the constructor\'s bound arrays are never modified', {'ops': list(ops)})
        xb = 0.6180339887      # a concrete coordinate: the clause is about aliasing of the bounds, not about the curve
        rb = bystander.GetImage(xb)
        eb = evo.mk_evolvent(N, m, lower0, upper0).GetImage(xb)
        for c in range(N):
            ex.prove(T(rb[c]) == T(eb[c]), 'PURE: an Evolvent built from the same bound arrays is not affected by queries / SetBounds on another one', {'ops': list(ops), 'bystander': True})
        # ---- the last query agrees with a fresh object
        op, a1, kind, res, _ = last
        fresh = evo.mk_evolvent(N, m, lower, upper)
        if op == 'GI':
            exp = fresh.GetImage(a1)
            for c in range(N):
                ex.prove(T(res[c]) == T(exp[c]), 'PURE: GetImage equals the result on a fresh object', {'ops': list(ops)})
        else:
            arg2 = list(a1) if kind == 'list' else shims.SArr(a1, 'i' if kind == 'i' else 'f')
            exp = fresh.GetInverseImage(arg2) if op == 'GII' else fresh.GetPreimages(arg2)
            ex.prove(T(res) == T(exp), 'PURE: %s equals the result on a fresh object' % op, {'ops': list(ops), 'kind': kind})
        ex.tag('seq-len-%d' % len(ops))
        if any(o == 'SB' for o in ops):
            ex.tag('with-SetBounds')
        if kind == 'i' or any(s[0] in ('GII', 'GP') and s[2] == 'i' for s in script if len(s) == 3 and s[0] != 'SB'):
            ex.tag('int-typed-argument')
        return script

    ex = Explorer(mode='EXACT', name='SEQ N=%d m=%d %s' % (N, m, '-'.join(ops)), timeout_ms=30000)
    ex.explore(h, sample_every=23)
    s = ex.summary()
    s['job'] = 'sequence N=%d m=%d %s kinds+%d' % (N, m, '-'.join(ops), kshift)
    s['bounds'] = {'N': N, 'm': m, 'ops': list(ops)}
    for c in s['cex']:
        c['detail'].update({'N': N, 'm': m, 'ops': list(ops), 'kshift': kshift})
    return s


def mutate_job(N, m):
    """The caller overwrites an array returned by GetImage; later queries must not notice (no internal aliasing)."""
    evo.setup()

    def h(ex):
        lower, upper = BOXSEQ[N][0]
        ev = evo.mk_evolvent(N, m, lower, upper)
        x1, x2 = ex.real('x0'), ex.real('x1')
        ex.assume(z3.And(x1.t >= 0, x1.t <= 1, x2.t >= 0, x2.t <= 1))
        r1 = ev.GetImage(x1)
        for c in range(N):
            r1[c] = 1e6 + c
        xi = ev.GetInverseImage(shims.SArr([0.5 * (lower[c] + upper[c]) + 0.01 for c in range(N)], 'f'))
        r2 = ev.GetImage(x2)
        fresh = evo.mk_evolvent(N, m, lower, upper)
        e2 = fresh.GetImage(x2)
        for c in range(N):
            ex.prove(T(r2[c]) == T(e2[c]), 'PURE: overwriting a returned array does not affect later queries')
            ex.prove(T(r1[c]) == 1e6 + c, 'RET: returned array is not touched by later queries')
        ex.tag('caller-mutation')
        return None
    ex = Explorer(mode='EXACT', name='MUT N=%d m=%d' % (N, m), timeout_ms=30000)
    ex.explore(h, sample_every=11)
    s = ex.summary()
    s['job'] = 'caller mutates returned array N=%d m=%d' % (N, m)
    for c in s['cex']:
        c['detail'].update({'N': N, 'm': m, 'ops': ['GI', 'GII', 'GI'], 'mutate': True})
    return s


REPLAY = r'''
"""Native replay of a C17 counterexample: runs the operation sequence on one Evolvent with the solver's argument values
and compares the last query with a fresh object; checks that arguments and earlier results are not modified."""
import sys, os
from fractions import Fraction as F
sys.path.insert(0, os.environ.get('IOPT_REPO', '/repo'))
import numpy as np
from iOpt.evolvent.evolvent import Evolvent
N, m, OPS, KSHIFT, MODEL, BOXES = __ARGS__
KINDS = ('f', 'list', 'i')
g = lambda k: F(MODEL[k]) if k in MODEL else F(1, 3)
lower, upper = BOXES[0]; bi = 0
la0, ua0 = np.array(lower, dtype=np.double), np.array(upper, dtype=np.double)
lower0, upper0 = list(lower), list(upper)
ev = Evolvent(la0, ua0, N, m)
bystander = Evolvent(la0, ua0, N, m)
bad = []
returned = []; last = None
def mk(vals, kind):
    if kind == 'i': return np.array([int(v) for v in vals], dtype=int)
    if kind == 'list': return [float(v) for v in vals]
    return np.array([float(v) for v in vals], dtype=np.double)
for pos, op in enumerate(OPS):
    if op == 'SB':
        bi += 1; lower, upper = BOXES[bi % len(BOXES)]
        la, ua = np.array(lower, dtype=np.double), np.array(upper, dtype=np.double)
        ev.SetBounds(la, ua)
        if list(la) != list(lower) or list(ua) != list(upper): bad.append('SetBounds modified its arguments')
        la[0] = 1234.5; ua[0] = 4321.5
        last = None
    elif op == 'GI':
        x = float(g('x%d' % pos))
        res = ev.GetImage(x); returned.append((res, res.copy(), pos)); last = ('GI', x, None, res)
    else:
        kind = KINDS[(pos + KSHIFT) % 3]
        vals = [g('y%d_%d' % (pos, c)) for c in range(N)]
        arg = mk(vals, kind); before = list(arg)
        res = ev.GetInverseImage(arg) if op == 'GII' else ev.GetPreimages(arg)
        if list(arg) != before or type(arg) is not type(mk(vals, kind)) or (kind != 'list' and arg.dtype != mk(vals, kind).dtype):
            bad.append('%s modified its %s argument: %r -> %r' % (op, kind, before, list(arg)))
        last = (op, vals, kind, res)
        if kind != 'list':
            for c in range(N): arg[c] = 77
if list(la0) != lower0 or list(ua0) != upper0: bad.append('the constructor\'s bound arrays were modified: %r %r' % (list(la0), list(ua0)))
xb = 0.6180339887
if list(bystander.GetImage(xb)) != list(Evolvent(lower0, upper0, N, m).GetImage(xb)): bad.append('an Evolvent built from the same bound arrays was affected: GetImage(%r) = %r, fresh object %r' % (xb, list(bystander.GetImage(xb)), list(Evolvent(lower0, upper0, N, m).GetImage(xb))))
for (arr, snap, pos) in returned:
    if list(arr) != list(snap): bad.append('array returned by query %d changed: %r -> %r' % (pos, list(snap), list(arr)))
if last is not None:
    fresh = Evolvent(lower, upper, N, m)
    op, a1, kind, res = last
    if op == 'GI':
        exp = fresh.GetImage(a1)
        if list(exp) != list(res): bad.append('GetImage(%r) after %r = %r, on a fresh object %r' % (a1, OPS[:-1], list(res), list(exp)))
    else:
        exp = fresh.GetInverseImage(mk(a1, kind)) if op == 'GII' else fresh.GetPreimages(mk(a1, kind))
        if float(exp) != float(res): bad.append('%s(%r as %s) after %r = %r, on a fresh object %r' % (op, [float(v) for v in a1], kind, OPS[:-1], float(res), float(exp)))
for b in bad: print('REPRODUCED C17:', b)
sys.exit(1 if bad else 0)
'''


def main():
    run = report.Runner('C17', design_ref='5/C17')
    evo.describe(run)
    plans = [(1, 2, 3), (2, 1, 3), (2, 2, 2)] if run.quick else [(1, 2, 3), (1, 5, 3), (2, 1, 3), (2, 2, 3), (3, 1, 3), (3, 2, 2), (2, 3, 2)]
    run.bound(sequences=[{'N': N, 'm': m, 'max_len': L} for N, m, L in plans],
              ops='GetImage, GetInverseImage, GetPreimages, SetBounds; all sequences ending in a query',
              arguments='x symbolic in [0,1]; y symbolic in the current box, as float array / plain list / int-typed array (by position)',
              boxes='concrete non-symmetric boxes, SetBounds cycles through 3 of them (box generality is C07/C09 BOX lemmas)')
    run.not_covered('sequences longer than the bound; densities above the bound (the per-call re-initialisation does not depend on m); '
                    'float32 or other exotic argument dtypes; concurrent use from threads')
    jobs = []
    for (N, m, L) in plans:
        for ln in range(1, L + 1):
            for ops in itertools.product(OPS, repeat=ln):
                if ops[-1] == 'SB':
                    continue
                ks = (run.seed + len(jobs)) % 3
                jobs.append((seq_job, (N, m, ops, ks)))
                if ln <= 2 and any(o in ('GII', 'GP') for o in ops):      # short sequences: every argument container kind
                    jobs.append((seq_job, (N, m, ops, (ks + 1) % 3)))
                    jobs.append((seq_job, (N, m, ops, (ks + 2) % 3)))
        jobs.append((mutate_job, (N, m)))
    # the historical shape of D7 must always be inside: int-typed inverse query, then GetImage, N=1
    jobs.append((seq_job, (1, 2, ('GP', 'GI'), 2)))
    jobs.append((seq_job, (1, 2, ('GII', 'GI'), 2)))
    res = run.parallel(jobs)
    groups = {}
    for r, c in run.candidates():
        d = c.get('detail', {})
        key = (c['label'].split(':')[0], d.get('N'), tuple(d.get('ops') or ()))
        groups.setdefault(key, c)
    tried = 0
    confirmed_kinds = set()
    for key, c in sorted(groups.items(), key=lambda kv: (len(kv[0][2]), str(kv[0]))):
        d = c['detail']
        if (key[0], key[1]) in confirmed_kinds or tried >= 40:
            continue
        tried += 1
        args = (d['N'], d['m'], d['ops'], d.get('kshift', 0), c['model'], BOXSEQ[d['N']])
        rp = run.write_replay('seq', REPLAY.replace('__ARGS__', repr(args)))
        ok, out = run.run_replay(rp)
        if ok:
            confirmed_kinds.add((key[0], key[1]))
            run.confirmed('C17:%s:%s' % (key[0], '-'.join(d['ops'])), '%s after %s (N=%d, m=%d): %s'
                          % (c['label'], d['ops'], d['N'], d['m'], out.strip()[-300:]), rp)
        else:
            run.unconfirmed('%s %s' % (c['label'], d['ops']), (out or '')[-300:])
    # a confirmed violation of a kind makes further unconfirmed candidates of the same kind irrelevant
    if run.violations:
        run.cex_unconfirmed = []
    run.finish('for every operation sequence within the bound and all argument values, the last query equals the same query on a fresh '
               'object, arguments are not modified and earlier results are not changed', vacuity=['seq-len-1', 'seq-len-2', 'with-SetBounds',
                                                                                               'int-typed-argument', 'caller-mutation'])


if __name__ == '__main__':
    main()
