"""C19 -- the search-data containers act as an ordered set plus max-priority queues (DESIGN.md section 5, C19).

The real SearchData, SearchDataDualQueue, CharacteristicsQueue and depq.DEPQ are executed (nothing stubbed) on operation
sequences whose KINDS are enumerated (all sequences up to a length, seeded longer ones) and whose coordinates and
characteristics are symbolic reals -- ties included -- so the solver decides every ordering of the values.  After every
operation a reference model kept by the harness (sorted list of items, multiset of queued (item, key) entries) is
compared with what the public methods return: traversal order, neighbour links, count, covering-interval lookup = first
item strictly to the right, best-interval request = an entry of maximal key (dual queue: maximal among entries whose key
still equals the item's current characteristic; stale entries above it are discarded), bounded queue = the maxlen
largest keys.  Comparison-only arithmetic (linear real arithmetic).
"""
import itertools
import os
import random
import sys

import z3

sys.path.insert(0, os.path.dirname(os.path.dirname(os.path.abspath(__file__))))
from harness import agp, agpnative as an  # noqa: E402
from symex import core, report  # noqa: E402
from symex.core import Explorer, Sym, SymBool  # noqa: E402

PID = 'C19'
OPS = ('ins_hint', 'ins_nohint', 'clear', 'refill', 'best', 'find', 'setR')
DUAL_OPS = OPS + ('best_local',)


from harness.c19native import Driver, OR, GE, bounded_clauses  # noqa: E402


def seq_job(dual, ops):
    st = agp.setup()
    mods = st['mods']
    agp.use_queue_stub(False)

    def h(ex):
        def num(name, lo=None, hi=None):
            v = ex.real(name)
            if lo is not None:
                ex.assume(z3.And(v.t > lo, v.t < hi))
            return v

        def distinct(v, others):
            for o in others:
                ex.assume(core.rval(v) != core.rval(o))
        items = []

        def check(label, cond):
            items.append((cond, 'C19 ' + label, {'ops': list(ops), 'dual': dual}))
        d = Driver(mods, dual, num, check, distinct)
        for pos, op in enumerate(ops):
            d.do(op, pos)
        ex.prove_batch(items)
        ex.tag('dual-queue' if dual else 'single-queue')
        for op in set(ops):
            ex.tag('op-' + op)
        return list(ops)
    ex = Explorer(mode='EXACT', name='SEQ %s %s' % ('dual' if dual else 'single', '-'.join(ops)), timeout_ms=30000, wall_s=agp.job_wall())
    ex.explore(h, sample_every=29)
    return agp.summary(ex, '%s: %s' % ('SearchDataDualQueue' if dual else 'SearchData', ' '.join(ops)), {'ops': list(ops), 'dual': dual},
                       {'level': 'c19', 'ops': list(ops), 'dual': dual})


def bounded_job(maxlen, n):
    """CharacteristicsQueue(maxlen): n inserts with symbolic keys, then everything is popped: the maxlen largest keys, in order."""
    st = agp.setup()
    mods = st['mods']
    agp.use_queue_stub(False)

    def h(ex):
        keys = [ex.real('k%d' % i) for i in range(n)]
        items = [(c, 'C19 ' + l, {'maxlen': maxlen, 'n': n}) for l, c in bounded_clauses(mods, maxlen, keys)]
        ex.prove_batch(items)
        ex.tag('bounded-queue')
    ex = Explorer(mode='EXACT', name='BOUNDED %d/%d' % (maxlen, n), timeout_ms=30000, wall_s=agp.job_wall())
    ex.explore(h, sample_every=17)
    return agp.summary(ex, 'CharacteristicsQueue(maxlen=%d) with %d symbolic priorities' % (maxlen, n), {'maxlen': maxlen, 'n': n},
                       {'level': 'c19b', 'maxlen': maxlen, 'n': n})


REPLAY = r'''
import os, sys
sys.path.insert(0, os.environ.get('IOPT_REPO', '/repo'))
sys.path.insert(1, %(verif)r)
ARGS = %(args)r
from harness import agpnative as an
mods = an.load()
model = {k: an.parse_num(v) for k, v in ARGS['model'].items()}
bad = []
from harness import c19native
bad = c19native.replay(mods, ARGS, model)
for b in bad: print('REPRODUCED', b)
sys.exit(1 if bad else 0)
'''


def main():
    run = report.Runner(PID, design_ref='5/C19')
    agp.describe(run, what=('search_data',))
    st = agp.setup()
    sdm = st['mods'].sd
    for n, f in vars(sdm.SearchDataDualQueue).items():
        if callable(f):
            run.encode(f, 'iOpt.method.search_data.SearchDataDualQueue.' + n)
    import depq
    run.encode(depq.DEPQ.insert, 'depq.DEPQ.insert (third party, executed for real)')
    run.encode(depq.DEPQ.popfirst, 'depq.DEPQ.popfirst (third party, executed for real)')
    quick = run.quick
    jobs = []
    L = 2 if quick else 3
    MAXINS = 2 if quick else 3
    for dual in (False, True):
        ops = DUAL_OPS if dual else OPS
        for ln in range(1, L + 1):
            for seq in itertools.product(ops, repeat=ln):
                if ln == L and seq[-1] in ('clear', 'setR', 'refill') and ln > 2:
                    continue        # a trailing op without observation adds nothing beyond the structure check of shorter ones
                if sum(1 for o in seq if o.startswith('ins')) > MAXINS:
                    continue
                jobs.append((seq_job, (dual, seq)))
        rnd = random.Random(run.seed * 77 + (1 if dual else 0))
        for i in range(12 if quick else 60):
            ln = rnd.choice((3, 4) if quick else (4, 5, 6))
            seq = tuple(rnd.choice(ops) for _ in range(ln))
            if sum(1 for o in seq if o.startswith('ins')) > 2:      # three insertions only in the exhaustive short sequences: the real DEPQ forks on every key order
                continue
            jobs.append((seq_job, (dual, seq)))
        # the historical shapes: hinted insert, then the local / global best
        jobs.append((seq_job, (dual, ('ins_hint', 'best') + (('best_local',) if dual else ()))))
        # characteristics re-computed after queueing (stale entries), then a best request
        for a in ('ins_hint', 'ins_nohint'):
            for b in (('best', 'best_local') if dual else ('best',)):
                jobs.append((seq_job, (dual, (a, 'setR', b))))
                jobs.append((seq_job, (dual, (a, 'refill', 'setR', b))))
        jobs.append((seq_job, (dual, ('ins_nohint', 'find', 'ins_nohint', 'find'))))
        # a lookup (or hint-less insertion), then the looked-up interval split by a HINTED insertion, then a lookup / hint-less insertion
        # (round 4, C19d-m1: a covering-interval cache that only the hint-less path invalidates)
        for a in ('find', 'ins_nohint'):
            for c in ('find', 'ins_nohint'):
                jobs.append((seq_job, (dual, (a, 'ins_hint', c))))
        jobs.append((seq_job, (dual, ('find', 'ins_hint', 'ins_hint', 'find'))))
    for maxlen in (1, 2, 3):
        for n in ((2, 4) if quick else (2, 3, 4, 5)):
            jobs.append((bounded_job, (maxlen, n)))
    run.bound(sequences='all sequences of length <= %d over %s (dual: + best_local), seeded sequences of length <= %d; at most %d insertions per sequence; '
                        'coordinates pairwise distinct in (0,1), characteristics arbitrary reals (ties included; in the dual queue a re-computed '
                        'characteristic is assumed distinct from the queued keys)' % (L, list(OPS), 4 if quick else 6, MAXINS),
              bounded_queue='maxlen in {1,2,3}, up to %d inserts with arbitrary priorities' % (4 if quick else 5))
    run.not_covered('sequences longer than the bound; NaN characteristics (DEPQ.insert does not terminate on NaN keys); SaveProgress/LoadProgress (empty)')
    run.stub('nothing is stubbed: SearchData, SearchDataDualQueue, CharacteristicsQueue and depq.DEPQ run for real on symbolic numbers')
    run.parallel(jobs, chunks=4)
    # native confirmation
    seen = set()
    for r, c in run.candidates():
        d = c['detail']
        key = (d.get('level'), c['label'].split(':')[0], d.get('dual'), tuple(d.get('ops') or ()))
        head = (d.get('level'), c['label'].split(':')[0], d.get('dual'))
        if head in seen:
            continue
        a = {'level': d.get('level'), 'model': c['model'], 'ops': d.get('ops'), 'dual': d.get('dual'), 'maxlen': d.get('maxlen'), 'n': d.get('n')}
        rp = run.write_replay('seq', REPLAY % {'verif': report.VERIF, 'args': a})
        ok, out = run.run_replay(rp)
        if ok:
            seen.add(head)
            run.confirmed('C19:%s:%s' % (c['label'].split(':')[0], 'dual' if d.get('dual') else 'single'),
                          '%s after %s: %s' % (c['label'], d.get('ops'), (out or '').strip()[-300:]), rp)
        elif len([1 for x in run.cex_unconfirmed if x['label'].startswith(c['label'][:30])]) < 2:
            run.unconfirmed('%s %s' % (c['label'], d.get('ops')), (out or '')[-300:])
    if run.violations:
        run.cex_unconfirmed = []
    run.finish('for every operation sequence within the bound and all coordinates / characteristics: ordered traversal, consistent links, count, '
               'covering lookup = first item to the right, best request = maximal (current) queued characteristic, bounded queue keeps the largest',
               vacuity=['single-queue', 'dual-queue', 'op-ins_hint', 'op-ins_nohint', 'op-best', 'op-best_local', 'op-find', 'op-refill', 'op-clear',
                        'op-setR', 'bounded-queue'])


if __name__ == '__main__':
    main()
