"""C07 -- the evolvent visits every grid cell of the box exactly once (DESIGN.md section 5, C07).

Obligations, all on the repository's own code (sliced loop bodies / whole functions), decided by z3:

 LVL(N)   per-level lemmas from EVERY orientation state (it, iw) and every digit, r, d, y symbolic:
          A  each coordinate moves by exactly +-r/2, r halves, iw stays in {+-1}^N, it in [0,N)
          C  digit = floor(d*2^N), d' = frac, taken iff x < 1;  x = 1 -> digit 2^N-1 and d' = 0
          B  simulation: the sliced *inverse* body run from the same state on (increment + tail), |tail| < r/2,
             recovers the same digit, the same next state and leaves `tail` -> digit -> sub-cell is injective
             (hence bijective: 2^N digits, 2^N sub-cells) at every level, from every state.
          By induction on the level: subinterval i (digits of i in base 2^N) -> a cell centre of the 2^m grid, the map
          is injective, hence onto by counting; x = 1 -> all digits 2^N-1 = the last subinterval's cell.
 BOX(N)   real __TransformP2D: |y_i| < 1/2 and lower_i < upper_i symbolic  ==>  lower_i < image_i < upper_i
 N1       N = 1: image is the affine map of [0,1] onto [lower, upper] (symbolic bounds)
 WHOLE    bounded whole-function cross-check of GetImage with symbolic x (all paths), N*m <= 8 / 12:
          path partition of [0,1] = the 2^(N*m) subintervals, images = pairwise distinct cell centres, x=1 -> last cell
"""
import os
import sys
import time

import z3

sys.path.insert(0, os.path.dirname(os.path.dirname(os.path.abspath(__file__))))
from harness import evo  # noqa: E402
from harness.evo import F, T, I  # noqa: E402
from symex import core, report  # noqa: E402
from symex.core import Explorer  # noqa: E402


def level_job(N, it0, w0, with_inverse=True):
    st = evo.setup()
    nexp = 2 ** N
    mstar = 50 // N

    def h(ex):
        ev = evo.mk_evolvent(N, 3)
        it = ex.int('it')
        ex.assume(it.t == it0)
        itc = ex.concretize(it.t)
        iw = []
        for i in range(N):
            w = ex.int('iw%d' % i)
            ex.assume(z3.Or(w.t == 1, w.t == -1))
            if i == 0:
                ex.assume(w.t == w0)
            iw.append(ex.concretize(w.t))
        x = ex.real('x')
        d = ex.real('d')
        r = ex.real('r')
        ex.assume(z3.And(x.t >= 0, x.t <= 1, d.t >= 0, d.t < 1, r.t > 0))
        y0 = [ex.real('y%d' % i) for i in range(N)]
        d2, r2, it2, iw2, iis, y2 = evo.fwd_level(ev, x, d, r, itc, iw, y0)
        ex.tag('x<1' if isinstance(iis, core.Sym) else 'x=1')
        # ---- A
        ex.prove(T(r2) == r.t / 2, 'A: r halves')
        for i in range(N):
            dy = T(y2[i]) - y0[i].t
            ex.prove(z3.Or(dy == r.t / 2, dy == -r.t / 2), 'A: coordinate %d moves by +-r/2' % i)
            ex.prove(z3.Or(I(iw2[i]) == 1, I(iw2[i]) == -1), 'A: iw stays a sign vector')
        ex.prove(z3.And(I(it2) >= 0, I(it2) < N), 'A: it stays an axis index')
        # ---- C
        k = T(iis)
        okc = z3.Or(z3.And(x.t < 1, k >= 0, k <= nexp - 1, k <= nexp * d.t, nexp * d.t < k + 1, T(d2) == nexp * d.t - k),
                    z3.And(x.t == 1, k == nexp - 1, T(d2) == 0))
        if ex.prove(okc, 'C: digit extraction / end-point rule') is False:
            # look for a point that is provably outside the last subinterval of the finest grid in scope
            w = ex.find(z3.And(z3.Not(okc), x.t < 1 - F(3, 2) * F(1, 2 ** (N * mstar))))
            if w:
                ex.cex[-1].detail.update({'N': N, 'm': mstar, 'x_outside_last_subinterval': w['x']})
            ex.cex[-1].detail.update({'N': N})
        if not with_inverse:
            return None
        # ---- B: the inverse body recovers digit and state from any point of the chosen sub-cell
        kc = ex.concretize(iis.t if core.is_int(iis.t) else z3.ToInt(iis.t)) if isinstance(iis, core.Sym) else int(iis)
        tails = [ex.real('t%d' % i) for i in range(N)]
        for t in tails:
            ex.assume(z3.And(t.t >= -r.t / 2, t.t < r.t / 2))
        r1 = ex.real('r1')
        xa = ex.real('xa')
        ex.assume(r1.t > 0)
        yrel = [(y2[i] - y0[i]) + tails[i] for i in range(N)]
        ri, r1i, x2, iti, wi, iisi, yrem = evo.inv_level(ev, r, r1, xa, itc, iw, yrel)
        ex.prove(T(iisi) == kc, 'B: inverse recovers the digit')
        ex.prove(I(iti) == I(it2), 'B: inverse reaches the same axis state')
        for i in range(N):
            ex.prove(I(wi[i]) == I(iw2[i]), 'B: inverse reaches the same sign state')
            ex.prove(T(yrem[i]) == tails[i].t, 'B: remainder is the offset inside the sub-cell')
        ex.prove(T(r1i) == r1.t / nexp, 'B: r1 scales by 2^-N')
        ex.prove(T(x2) == xa.t + (r1.t / nexp) * kc, 'B: x accumulates digit * 2^-N(j+1)')
        ex.prove(T(ri) == r.t / 2, 'B: inverse r halves')
        return (itc, tuple(iw), kc)

    ex = Explorer(mode='EXACT', name='LVL N=%d it=%d w0=%d' % (N, it0, w0), timeout_ms=30000)
    ex.explore(h, sample_every=97)
    s = ex.summary()
    s['job'] = 'level-lemmas N=%d it=%d iw0=%+d' % (N, it0, w0)
    s['bounds'] = {'N': N, 'states': 'it=%d, iw0=%+d, other signs all' % (it0, w0), 'digits': 'all 2^N', 'r,d,y,tail': 'symbolic reals'}
    for c in s['cex']:
        c['detail'].setdefault('N', N)
    return s


def box_job(N):
    st = evo.setup()

    def h(ex):
        a = [ex.real('a%d' % i) for i in range(N)]
        b = [ex.real('b%d' % i) for i in range(N)]
        y = [ex.real('y%d' % i) for i in range(N)]
        for i in range(N):
            ex.assume(z3.And(a[i].t < b[i].t, y[i].t > -F(1, 2), y[i].t < F(1, 2)))
        if ex.paths % 2 == 0:
            ev = evo.mk_evolvent(N, 3, a, b)
        else:                       # re-targeted object: constructed for another box, then SetBounds
            ao = [ex.real('a_old%d' % i) for i in range(N)]
            bo = [ex.real('b_old%d' % i) for i in range(N)]
            for i in range(N):
                ex.assume(ao[i].t < bo[i].t)
            ev = evo.mk_evolvent(N, 3, ao, bo)
            ev.SetBounds(a, b)
            ex.tag('SetBounds')
        ev.yValues = evo.shims.SArr(y, 'f')
        ev._Evolvent__TransformP2D()
        for i in range(N):
            out = T(ev.yValues[i])
            ex.prove(z3.And(a[i].t < out, out < b[i].t), 'BOX: coordinate %d strictly inside (lower, upper)' % i)
            ex.prove(out == a[i].t + (y[i].t + F(1, 2)) * (b[i].t - a[i].t), 'BOX: affine map of [-1/2,1/2] onto [lower, upper]')
        return None
    ex = Explorer(mode='EXACT', logic='QF_NRA', name='BOX N=%d' % N, timeout_ms=60000)
    ex.explore(h, sample_every=1)
    ex.explore(h, sample_every=1)       # second pass: the SetBounds variant (ex.paths is now odd)
    s = ex.summary()
    s['job'] = 'box-clause N=%d' % N
    s['bounds'] = {'N': N, 'lower<upper': 'symbolic reals', '|y|<1/2': 'symbolic'}
    return s


def n1_job():
    def h(ex):
        a = ex.real('a')
        b = ex.real('b')
        x = ex.real('x')
        m = 1 + (ex.paths % 3)
        ex.assume(z3.And(a.t < b.t, x.t >= 0, x.t <= 1))
        if ex.paths % 2 == 0:
            ev = evo.mk_evolvent(1, m, [a], [b])
        else:
            ao, bo = ex.real('a_old'), ex.real('b_old')
            ex.assume(ao.t < bo.t)
            ev = evo.mk_evolvent(1, m, [ao], [bo])
            ev.SetBounds([a], [b])
            ex.tag('SetBounds')
        y = ev.GetImage(x)
        out = T(y[0])
        ex.prove(out == a.t + x.t * (b.t - a.t), 'N1: affine')
        ex.prove(z3.And(out >= a.t, out <= b.t), 'N1: inside the box')
        ex.prove(z3.Implies(x.t == 1, out == b.t), 'N1: x=1 maps to the upper end')
        ex.prove(z3.Implies(x.t == 0, out == a.t), 'N1: x=0 maps to the lower end')
        return None
    ex = Explorer(mode='EXACT', logic='QF_NRA', name='N1', timeout_ms=60000)
    ex.explore(h, sample_every=1)
    ex.explore(h, sample_every=1)
    s = ex.summary()
    s['job'] = 'N=1 affine map'
    s['bounds'] = {'N': 1, 'bounds': 'symbolic a<b', 'x': '[0,1]'}
    return s


BOXES = {2: ([-1.5, 2.0], [0.5, 5.0]), 3: ([0.0, -1.0, 2.0], [1.0, 3.0, 2.5]), 4: ([0.0] * 4, [1.0, 2.0, 4.0, 8.0]),
         5: ([-1.0] * 5, [1.0] * 5), 6: ([0.0] * 6, [1.0] * 6)}


def whole_job(N, m, part, parts):
    """All paths of the real GetImage for x in [part/parts, (part+1)/parts) (the last part includes x = 1)."""
    lower, upper = BOXES[N]
    K = 2 ** (N * m)
    G = 2 ** m
    cells = {}
    ends = {}

    def h(ex):
        x = ex.real('x')
        lo, hi = F(part, parts), F(part + 1, parts)
        ex.assume(z3.And(x.t >= lo, x.t < hi) if part < parts - 1 else z3.And(x.t >= lo, x.t <= 1))
        if part % 2 == 0:
            ev = evo.mk_evolvent(N, m, lower, upper)
        else:                       # an object constructed for another box and re-targeted with SetBounds
            ev = evo.mk_evolvent(N, m, [-7.0] * N, [9.0 + c for c in range(N)])
            ev.SetBounds(lower, upper)
        y = ev.GetImage(x)
        mv = ex.model_values()
        xv = core.frac(mv['x'])
        i = min(int(xv * K), K - 1)
        # the whole path lies in subinterval i (or is the point x = 1)
        if xv == 1:
            ok = ex.prove(x.t >= F(K - 1, K), 'WHOLE: the end-point path stays inside the last subinterval', {'N': N, 'm': m})
            ex.tag('x=1')
        else:
            ok = ex.prove(z3.And(x.t >= F(i, K), x.t < F(i + 1, K)), 'WHOLE: a path stays inside one subinterval',
                          {'N': N, 'm': m, 'x': str(xv)})
            ex.tag('interior')
        idx = []
        for c in range(N):
            q = (T(y[c]) - F(lower[c])) / (F(upper[c]) - F(lower[c])) * G - F(1, 2)
            qs = z3.simplify(q)
            qc = core._const_of(qs)
            if qc is None or qc.denominator != 1 or not (0 <= qc < G):
                ex.prove(False, 'WHOLE: image is a cell centre of the 2^m grid', {'N': N, 'm': m, 'x': str(xv), 'coord': c, 'value': str(qs)})
                return None
            idx.append(int(qc))
        ex.prove(True, 'WHOLE: image is a cell centre of the 2^m grid')
        key = 'end' if xv == 1 else i
        if key in cells:
            ex.prove(False, 'WHOLE: two paths inside the same subinterval', {'N': N, 'm': m, 'x': str(xv)})
        cells[key] = tuple(idx)
        return (i, tuple(idx))

    ex = Explorer(mode='EXACT', name='WHOLE N=%d m=%d part %d/%d' % (N, m, part, parts), timeout_ms=30000)
    ex.explore(h, sample_every=max(1, K // parts // 3))
    s = ex.summary()
    s['job'] = 'whole-function GetImage N=%d m=%d x-part %d/%d' % (N, m, part, parts)
    s['bounds'] = {'N': N, 'm': m, 'box': [lower, upper]}
    s['cells'] = {str(k): v for k, v in cells.items()}
    for c in s['cex']:
        c['detail'].setdefault('N', N)
        c['detail'].setdefault('m', m)
    return s


def merge_whole(run, results, N, m):
    """Cross-path facts: every subinterval index appears exactly once and cells are pairwise distinct."""
    K = 2 ** (N * m)
    cells = {}
    for r in results:
        for k, v in (r.get('cells') or {}).items():
            cells[k] = tuple(v)
    problems = []
    missing = [i for i in range(K) if str(i) not in cells]
    if missing:
        problems.append('subintervals without a path: %s' % missing[:5])
    vals = [cells[str(i)] for i in range(K) if str(i) in cells]
    if len(set(vals)) != len(vals):
        problems.append('two subintervals share a cell')
    if 'end' not in cells:
        problems.append('no path for x = 1')
    elif str(K - 1) in cells and cells['end'] != cells[str(K - 1)]:
        problems.append('x = 1 does not map to the last cell')
    return cells, problems


def main():
    run = report.Runner('C07', design_ref='5/C07')
    evo.describe(run)
    Ns = [2, 3, 4] if run.quick else [2, 3, 4, 5]
    wholes = [(2, 2), (2, 3), (3, 2), (2, 4), (4, 2)] if run.quick else [(2, 2), (2, 3), (3, 2), (2, 4), (4, 2), (3, 3), (2, 5), (5, 2), (2, 6), (3, 4), (4, 3), (6, 2)]
    run.bound(level_lemmas_N=Ns, level_lemmas='every orientation state (it, iw), every digit; r, d, y, tail symbolic reals: they cover every '
              'level, hence every density m (exactness in binary64 needs N*m <= 50)', whole_function_N_m=wholes,
              box_clause='N=1..5, symbolic lower<upper')
    run.not_covered('floating-point rounding of the affine cube-to-box map (the property allows it)')
    run.not_covered('N >= 6; per-level lemmas for N=5 only in the thorough tier')
    run.not_covered('N = 1 is the affine map (C09 states so): the cell-centre clauses are claimed for N >= 2')
    jobs = [(n1_job, ())]
    for N in range(1, 6):
        jobs.append((box_job, (N,)))
    for N in Ns:
        for it0 in range(N):
            for w0 in (1, -1):
                jobs.append((level_job, (N, it0, w0)))
    whole_parts = {}
    for (N, m) in wholes:
        K = 2 ** (N * m)
        parts = 1 if K <= 64 else 4 if K <= 256 else 16 if K <= 1024 else 32
        whole_parts[(N, m)] = parts
        for p in range(parts):
            jobs.append((whole_job, (N, m, p, parts)))
    # biggest first for load balance
    jobs.sort(key=lambda j: -(2 ** (j[1][0] * 2) * j[1][0] if j[0] is level_job else
                              (2 ** (j[1][0] * j[1][1]) // whole_parts[(j[1][0], j[1][1])] if j[0] is whole_job else 1)))
    res = run.parallel(jobs)
    # ---- cross-path merge of the whole-function runs
    for (N, m) in wholes:
        rs = [r for r in res if r.get('job', '').startswith('whole-function GetImage N=%d m=%d ' % (N, m))]
        if any(r.get('error') for r in rs):
            continue
        cells, problems = merge_whole(run, rs, N, m)
        run.extra.setdefault('whole_function_cells', {})['N=%d,m=%d' % (N, m)] = len(cells)
        if problems and not any(r.get('n_cex') for r in rs):
            rp = evo.oracle_replay(run, 'whole-N%d-m%d' % (N, m), N, m, 'C07')
            ok, out = run.run_replay(rp)
            if ok:
                run.confirmed('C07:whole:N=%d,m=%d:%s' % (N, m, problems[0][:40]), 'GetImage N=%d m=%d: %s | native: %s' % (N, m, problems, out.strip()[-300:]), rp)
            else:
                run.unconfirmed('whole N=%d m=%d: %s' % (N, m, problems), out[-300:])
    # ---- candidates -> native replay (one replay per (obligation kind, N), preferring candidates that carry a point x)
    groups = {}
    for r, c in run.candidates():
        d = c.get('detail', {})
        key = (c['label'].split(':')[0], d.get('N'))
        best = groups.get(key)
        rank = (1 if d.get('x_outside_last_subinterval') else 0, 1 if d.get('x') else 0)
        if best is None or rank > best[0]:
            groups[key] = (rank, c)
    for (kind, N), (_, c) in sorted(groups.items(), key=lambda kv: str(kv[0])):
        d = c.get('detail', {})
        lab = c['label']
        if kind in ('N1', 'BOX'):
            rp = n1_box_replay(run, c)
            ok, out = run.run_replay(rp)
            if ok:
                run.confirmed('C07:%s' % lab[:30], '%s fails: %s' % (lab, out.strip()[-300:]), rp)
            else:
                run.unconfirmed(lab, (out or '')[-300:])
            continue
        if N is None:
            run.unconfirmed(lab, 'no dimension recorded')
            continue
        if d.get('x_outside_last_subinterval'):
            m = d['m']
            rp = evo.point_replay(run, 'endpoint-N%d-m%d' % (N, m), N, m, [d['x_outside_last_subinterval']])
            ok, out = run.run_replay(rp)
            if ok:
                run.confirmed('C07:__GetYonX:endpoint-rule', 'a point x<1 outside the last subinterval is treated like x=1 (N=%d, m=%d, x=%s): %s'
                              % (N, m, d['x_outside_last_subinterval'], out.strip()[-300:]), rp)
                continue
        mmax = min(d.get('m') or 99, max(1, min(4, 13 // N)))
        xs = [d['x']] if d.get('x') else []
        rp = evo.oracle_replay(run, 'lemma-N%d' % N, N, mmax, 'C07', xs)
        ok, out = run.run_replay(rp)
        if ok:
            run.confirmed('C07:%s:N=%d' % (lab[:40], N), '%s fails (N=%d); native end-to-end witness: %s' % (lab, N, out.strip()[-400:]), rp)
        else:
            run.unconfirmed('%s (N=%s)' % (lab, N), 'lemma counterexample %s has no native end-to-end witness for m <= %d: %s'
                            % (c.get('model'), mmax, (out or '')[-200:]))
    run.finish('for every orientation state and digit the sliced forward level moves to a distinct sub-cell centre that the sliced inverse '
               'level decodes (=> index -> cell is a bijection onto the 2^m grid at every density); end point only for x=1; images strictly '
               'inside symbolic boxes; bounded whole-function GetImage partitions [0,1] into the 2^(Nm) subintervals with distinct cell centres',
               vacuity=['x<1', 'x=1', 'interior', 'SetBounds'])


N1_BOX_REPLAY = r'''
"""Native replay of an N=1 / box-clause counterexample of C07 (values from the solver model)."""
import sys, os
from fractions import Fraction as F
sys.path.insert(0, os.environ.get('IOPT_REPO', '/repo'))
from iOpt.evolvent.evolvent import Evolvent
MODEL = __MODEL__
LABEL = __LABEL__
g = lambda k: float(F(MODEL[k]))
bad = 0
if LABEL.startswith('N1'):
    a, b, x = g('a'), g('b'), g('x')
    if 'a_old' in MODEL:
        ev = Evolvent([g('a_old')], [g('b_old')], 1, 3); ev.SetBounds([a], [b])
    else:
        ev = Evolvent([a], [b], 1, 3)
    y = float(ev.GetImage(x)[0])
    exp = a + x * (b - a)
    tol = 1e-9 * max(1.0, abs(a), abs(b))
    if not (a - tol <= y <= b + tol) or abs(y - exp) > tol:
        print('REPRODUCED C07 N=1: image of x=%r in [%r,%r] is %r, expected %r' % (x, a, b, y, exp)); bad = 1
else:
    N = len([k for k in MODEL if k.startswith('a') and k[1:].isdigit()])
    a = [g('a%d' % i) for i in range(N)]; b = [g('b%d' % i) for i in range(N)]
    for m in (1, 2, 3):
        if 'a_old0' in MODEL:
            e = Evolvent([g('a_old%d' % i) for i in range(N)], [g('b_old%d' % i) for i in range(N)], N, m); e.SetBounds(a, b)
        else:
            e = Evolvent(a, b, N, m)
        for i in range(2 ** (N * m)):
            y = e.GetImage((i + 0.5) / 2 ** (N * m))
            for c in range(N):
                tol = 1e-9 * max(1.0, abs(a[c]), abs(b[c]))
                if not (a[c] - tol <= float(y[c]) <= b[c] + tol):
                    print('REPRODUCED C07 box: image %r outside [%r, %r]' % (list(y), a, b)); bad = 1; break
            if bad: break
        if bad: break
sys.exit(bad)
'''


def n1_box_replay(run, c):
    return run.write_replay('n1box', N1_BOX_REPLAY.replace('__MODEL__', repr(c['model'])).replace('__LABEL__', repr(c['label'])))


if __name__ == '__main__':
    main()
