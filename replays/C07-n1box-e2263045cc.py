
"""Native replay of an N=1 / box-clause counterexample of C07 (values from the solver model)."""
import sys, os
from fractions import Fraction as F
sys.path.insert(0, os.environ.get('IOPT_REPO', '/repo'))
from iOpt.evolvent.evolvent import Evolvent
MODEL = {'a0': '-4796158004373/6418181354200', 'b0': '-1587067327273/6418181354200', 'y0': '-1775627/3614600', 'a_old0': '-894979/3614600', 'b_old0': '-1351597364833/6418181354200'}
LABEL = 'BOX: coordinate 0 strictly inside (lower, upper)'
g = lambda k: float(F(MODEL[k]))
bad = 0
if LABEL.startswith('N1'):
    a, b, x = g('a'), g('b'), g('x')
    if 'a_old' in MODEL:
        ev = Evolvent([g('a_old')], [g('b_old')], 1, 3); ev.SetBounds([a], [b])
    else:
        ev = Evolvent([a], [b], 1, 3)
    y = float(ev.GetImage(x)[0])
    exp = a + x * (b - a)
    tol = 1e-9 * max(1.0, abs(a), abs(b))
    if not (a - tol <= y <= b + tol) or abs(y - exp) > tol:
        print('REPRODUCED C07 N=1: image of x=%r in [%r,%r] is %r, expected %r' % (x, a, b, y, exp)); bad = 1
else:
    N = len([k for k in MODEL if k.startswith('a') and k[1:].isdigit()])
    a = [g('a%d' % i) for i in range(N)]; b = [g('b%d' % i) for i in range(N)]
    for m in (1, 2, 3):
        if 'a_old0' in MODEL:
            e = Evolvent([g('a_old%d' % i) for i in range(N)], [g('b_old%d' % i) for i in range(N)], N, m); e.SetBounds(a, b)
        else:
            e = Evolvent(a, b, N, m)
        for i in range(2 ** (N * m)):
            y = e.GetImage((i + 0.5) / 2 ** (N * m))
            for c in range(N):
                tol = 1e-9 * max(1.0, abs(a[c]), abs(b[c]))
                if not (a[c] - tol <= float(y[c]) <= b[c] + tol):
                    print('REPRODUCED C07 box: image %r outside [%r, %r]' % (list(y), a, b)); bad = 1; break
            if bad: break
        if bad: break
sys.exit(bad)
