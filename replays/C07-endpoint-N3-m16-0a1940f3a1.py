
"""Native point-wise replay (C07): a point of [0,1) must map to the same cell as the midpoint of its subinterval."""
import sys, os
from fractions import Fraction as F
sys.path.insert(0, os.environ.get('IOPT_REPO', '/repo'))
from iOpt.evolvent.evolvent import Evolvent
N, m, xs = (3, 16, ['9671406552081304349387115/9671406556917033397649408'])
e = Evolvent([0.0] * N, [1.0] * N, N, m)
K = 2 ** (N * m)
bad = 0
for s in xs:
    x = float(F(s)); xe = F(x)
    if not (0 <= xe < 1):
        continue
    i = int(xe * K)
    mid = float(F(2 * i + 1, 2 * K))
    y, ym = [float(v) for v in e.GetImage(x)], [float(v) for v in e.GetImage(mid)]
    if y != ym:
        print('REPRODUCED C07: N=%d m=%d x=%r lies in subinterval %d but maps to %r; the subinterval midpoint %r maps to %r' % (N, m, x, i, y, mid, ym))
        bad = 1
sys.exit(bad)
