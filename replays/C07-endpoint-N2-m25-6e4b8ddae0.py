
"""Native point-wise replay (C07): points of different subintervals must map to different cells, points of the same
subinterval to the same cell; x = 1 belongs to the last subinterval."""
import sys, os
from fractions import Fraction as F
sys.path.insert(0, os.environ.get('IOPT_REPO', '/repo'))
from iOpt.evolvent.evolvent import Evolvent
N, m, xs = (2, 25, ['9671406552081323676739947/9671406556917033397649408'])
e = Evolvent([0.0] * N, [1.0] * N, N, m)
K = 2 ** (N * m)
img = lambda v: [float(c) for c in e.GetImage(float(v))]
bad = 0
for s in xs:
    x = float(F(s)); xe = F(x)
    if not (0 <= xe < 1):
        continue
    i = int(xe * K)
    y = img(x)
    others = {j for j in (0, i - 1, i + 1, K - 2, K - 1) if 0 <= j < K and j != i}
    for j in sorted(others):
        for xo in (F(j, K), F(2 * j + 1, 2 * K)) + ((F(1),) if j == K - 1 else ()):
            if img(xo) == y:
                print('REPRODUCED C07: N=%d m=%d x=%r lies in subinterval %d but has the same image %r as x=%s of subinterval %d' % (N, m, x, i, y, xo, j))
                bad = 1
    for xo in (F(i, K), F(4 * i + 1, 4 * K), F(2 * i + 1, 2 * K)):
        if img(xo) != y:
            print('REPRODUCED C07: N=%d m=%d x=%r and x=%s lie in the same subinterval %d but map to %r and %r' % (N, m, x, xo, i, y, img(xo)))
            bad = 1
sys.exit(bad)
