
"""Native oracle for the evolvent properties (no shims, repository's own interpreter).
ARGS = [N, m_max, clauses, x-values as fractions 'p/q' ...]
exit 1 = a violation of C07/C08/C09 reproduces on the real code; exit 0 = none found in the explored range."""
import sys, os
from fractions import Fraction as F
sys.path.insert(0, os.environ.get('IOPT_REPO', '/repo'))
from iOpt.evolvent.evolvent import Evolvent
import numpy as np

def cells(N, m, lower, upper):
    e = Evolvent(lower, upper, N, m)
    K = 2 ** (N * m)
    out = []
    for i in range(K):
        x = float(F(2 * i + 1, 2 * K))          # midpoint of subinterval i (exact double for N*m <= 50)
        y = e.GetImage(x)
        out.append(tuple(float(v) for v in y))
    return e, out

def check(N, m, which, xs):
    bad = []
    lower = [0.0] * N; upper = [1.0] * N
    e, cs = cells(N, m, lower, upper)
    K = 2 ** (N * m)
    G = 2 ** m
    idx = []
    for i, c in enumerate(cs):
        j = []
        for v in c:
            q = F(v) * G - F(1, 2)
            if q.denominator != 1 or not (0 <= q < G):
                bad.append('C07: N=%d m=%d subinterval %d image %r is not a cell centre' % (N, m, i, c)); break
            j.append(int(q))
        idx.append(tuple(j))
    if not bad:
        if len(set(idx)) != K:
            bad.append('C07: N=%d m=%d images of the %d subintervals hit only %d distinct cells' % (N, m, K, len(set(idx))))
        last = tuple(float(v) for v in e.GetImage(1.0))
        if last != cs[-1]:
            bad.append('C07: N=%d m=%d image of x=1 %r is not the last cell %r' % (N, m, last, cs[-1]))
        # end points / interior points of subintervals map like the midpoint
        for i in (0, 1, K // 2, K - 2, K - 1):
            if 0 <= i < K:
                for x in (F(i, K), F(4 * i + 1, 4 * K), F(4 * i + 3, 4 * K), F(i + 1, K) - F(1, 2 ** 52)):
                    if 0 <= x < 1 and int(x * K) == i:
                        y = tuple(float(v) for v in e.GetImage(float(x)))
                        if y != cs[i]:
                            bad.append('C07: N=%d m=%d x=%s of subinterval %d maps to %r, midpoint maps to %r' % (N, m, x, i, y, cs[i]))
    for x in xs:
        xe = F(float(x))
        if 0 <= xe < 1 and not bad:
            i = int(xe * K)
            y = tuple(float(v) for v in e.GetImage(float(x)))
            if y != cs[i]:
                bad.append('C07: N=%d m=%d x=%s of subinterval %d maps to %r, midpoint maps to %r' % (N, m, xe, i, y, cs[i]))
    if not bad and 'C08' in which:
        for i in range(K - 1):
            dif = [abs(a - b) for a, b in zip(idx[i], idx[i + 1])]
            if sorted(dif) != [0] * (N - 1) + [1]:
                bad.append('C08: N=%d m=%d cells of subintervals %d,%d are not face-adjacent: %r %r' % (N, m, i, i + 1, idx[i], idx[i + 1])); break
    if not bad and 'C09' in which:
        for i in range(K):
            x = e.GetInverseImage(np.array(cs[i]))
            if F(float(x)) != F(i, K):
                bad.append('C09: N=%d m=%d inverse(image(subinterval %d)) = %r, expected %s' % (N, m, i, x, F(i, K))); break
            x2 = e.GetPreimages(np.array(cs[i]))
            if F(float(x2)) != F(i, K):
                bad.append('C09: N=%d m=%d GetPreimages(image(subinterval %d)) = %r, expected %s' % (N, m, i, x2, F(i, K))); break
            # a non-centre point of the same cell
            off = [(0.3 if (i + k) % 2 else -0.45) / G for k in range(N)]
            p = np.array([c + o for c, o in zip(cs[i], off)])
            x3 = e.GetInverseImage(p)
            if F(float(x3)) != F(i, K):
                bad.append('C09: N=%d m=%d inverse of off-centre point %r of cell %d = %r, expected %s' % (N, m, list(p), i, x3, F(i, K))); break
    return bad

def nesting(N, m):
    bad = []
    lower = [0.0] * N; upper = [1.0] * N
    e1, c1 = cells(N, m, lower, upper)
    e2, c2 = cells(N, m + 1, lower, upper)
    G = 2 ** m
    for i2, c in enumerate(c2):
        i = i2 // (2 ** N)
        if any(abs(F(a) - F(b)) > F(1, 2 * G) for a, b in zip(c, c1[i])):
            bad.append('C08: N=%d density-%d cell %r of sub-subinterval %d is not inside the density-%d cell %r of subinterval %d' % (N, m + 1, c, i2, m, c1[i], i)); break
    return bad

if __name__ == '__main__':
    ARGS = [2, 4, 'C07', '0']
    N = int(ARGS[0]); mmax = int(ARGS[1]); which = ARGS[2]
    xs = [F(a) for a in ARGS[3:]]
    bad = []
    for m in range(1, mmax + 1):
        bad += check(N, m, which, xs)
        if 'C08' in which and N * (m + 1) <= N * mmax:
            bad += nesting(N, m)
        if bad: break
    for b in bad[:10]: print('REPRODUCED', b)
    sys.exit(1 if bad else 0)
