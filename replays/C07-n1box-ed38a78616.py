
"""Native replay of an N=1 / box-clause counterexample of C07 (values from the solver model)."""
import sys, os
from fractions import Fraction as F
sys.path.insert(0, os.environ.get('IOPT_REPO', '/repo'))
from iOpt.evolvent.evolvent import Evolvent
MODEL = {'a0': '1', 'a1': '71/512', 'b0': '2', 'b1': '1/2', 'y0': '0', 'y1': '371/1024'}
LABEL = 'BOX: coordinate 1 strictly inside (lower, upper)'
g = lambda k: float(F(MODEL[k]))
bad = 0
if LABEL.startswith('N1'):
    a, b, x = g('a'), g('b'), g('x')
    y = float(Evolvent([a], [b], 1, 3).GetImage(x)[0])
    exp = a + x * (b - a)
    tol = 1e-9 * max(1.0, abs(a), abs(b))
    if not (a - tol <= y <= b + tol) or abs(y - exp) > tol:
        print('REPRODUCED C07 N=1: image of x=%r in [%r,%r] is %r, expected %r' % (x, a, b, y, exp)); bad = 1
else:
    N = len([k for k in MODEL if k.startswith('a')])
    a = [g('a%d' % i) for i in range(N)]; b = [g('b%d' % i) for i in range(N)]
    for m in (1, 2, 3):
        e = Evolvent(a, b, N, m)
        for i in range(2 ** (N * m)):
            y = e.GetImage((i + 0.5) / 2 ** (N * m))
            for c in range(N):
                tol = 1e-9 * max(1.0, abs(a[c]), abs(b[c]))
                if not (a[c] - tol <= float(y[c]) <= b[c] + tol):
                    print('REPRODUCED C07 box: image %r outside [%r, %r]' % (list(y), a, b)); bad = 1; break
            if bad: break
        if bad: break
sys.exit(bad)
