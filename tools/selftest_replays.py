#!/usr/bin/env python3
"""Formats every replay template with harmless arguments, checks that it parses, and runs it natively against the current tree: every one must
exit 0 (nothing to reproduce on the unchanged tree).  A template that does not parse would turn a real violation into 'inconclusive'."""
import ast, os, subprocess, sys, tempfile
V = os.path.dirname(os.path.dirname(os.path.abspath(__file__)))
sys.path.insert(0, V)
from harness import c15, c10, c14, c18, c20, c12, c05, c19, c01, c17, evo, agpnative as an  # noqa
T = {
 'c15': c15.REPLAY % {'family': 'gkls', 'fn': (2, 8), 'variant': 'reused-buffer', 'model': {}},
 'c15b': c15.REPLAY % {'family': 'hill', 'fn': 5, 'variant': 'sibling-same-point', 'model': {}},
 'c10': c10.REPLAY % {'family': 'gkls', 'fn': (3, 31), 'model': {}, 'label': 'x', 'series': [(3, 30), (3, 31)], 'at': None},
 'c10b': c10.REPLAY % {'family': 'grishagin', 'fn': 10, 'model': {}, 'label': 'x', 'series': None, 'at': [0.5, 0.5]},
 'c14': c14.REPLAY % {'n': 2, 'k': 3, 'verif': V}, 'c18': c18.REPLAY % {'family': 'shekel', 'fn': 3, 'level': 'meta', 'label': 'x'},
 'c20': c20.REPLAY % {'N': 2, 'box': ([0.0, 1.0], [1.0, 3.0])}, 'c12': c12.DEFAULTS_REPLAY % {'verif': V}, 'c05': c05.BOX_REPLAY % {'N': 2, 'm': 2, 'model': {}},
 'c19': c19.REPLAY % {'verif': V, 'args': {'level': 'c19', 'model': {}, 'ops': ['ins_nohint', 'find', 'best'], 'dual': True}},
 'c01': c01.TWIN_REPLAY % {'verif': V, 'model': {}, 'limit': 3, 'r': 2.5},
 'c17': c17.REPLAY.replace('__ARGS__', repr((2, 2, ['GI', 'SB', 'GII'], 0, {}, c17.BOXSEQ[2]))),
 'evo-oracle': evo.NATIVE_ORACLE.replace('__ARGS__', repr([2, 2, 'C07C08C09'])),
 'evo-point': evo.POINT_REPLAY.replace('__ARGS__', repr((2, 2, ['1/3']))),
 'agp-guard': an.REPLAY_TEMPLATE % {'verif': V, 'args': {'level': 'guard', 'want': ['C03'], 'N': 1, 'model': {}}},
 'agp-scenario': an.REPLAY_TEMPLATE % {'verif': V, 'args': {'level': 'scenario', 'want': ['C02', 'C03', 'C04', 'C06'], 'N': 1, 'model': {},
                 'cfg': {'N': 1, 'r': 2.5, 'seed': 1, 'kpre': 3, 'nsym': 2, 'script': [('iter', 3), ('solve',)], 'iters_limit': 5, 'overrides': ['before', 'iter', 'stop'], 'sibling': 'other'}}},
 'agp-longrun': an.REPLAY_TEMPLATE % {'verif': V, 'args': {'level': 'longrun', 'want': ['C02'], 'N': 2, 'model': {}, 'r': 3.5, 'iters': 300, 'seed': 1}},
}
bad = 0
for k, src in T.items():
    try:
        ast.parse(src)
    except SyntaxError as e:
        print('SYNTAX', k, e); bad = 1; continue
    f = tempfile.NamedTemporaryFile('w', suffix='.py', delete=False); f.write(src); f.close()
    p = subprocess.run(['/venv/bin/python', '-W', 'ignore', f.name], capture_output=True, text=True, timeout=600)
    os.unlink(f.name)
    ok = p.returncode == 0
    print('%-14s exit=%d %s' % (k, p.returncode, '' if ok else (p.stdout + p.stderr)[-300:]))
    bad |= (not ok)
sys.exit(bad)
