#!/bin/bash
# usage: try_mutant.sh <patch.diff> <check command...>   -- applies a patch to the repository (IOPT_REPO, default /repo), runs a check, always undoes it
set -u
R=${IOPT_REPO:-/repo}
PATCH=$(readlink -f "$1"); shift
cd $R && git diff --quiet || { echo "$R is dirty"; exit 9; }
trap 'git -C $R checkout -- . 2>/dev/null' EXIT INT TERM HUP
git -C $R apply "$PATCH" || exit 9
( cd /verif && IOPT_REPO=$R "$@" ) > /tmp/try_mutant.$$.log 2>&1; rc=$?
git -C $R checkout -- .
grep -E "VIOLATION|verdict|KNOWN|INCONCLUSIVE|HARNESS" /tmp/try_mutant.$$.log | head -8
rm -f /tmp/try_mutant.$$.log
echo "exit=$rc"
