#!/bin/bash
# usage: try_mutant.sh <patch.diff> <check command...>   -- applies a patch to /repo, runs a check, always undoes it
set -u
PATCH=$(readlink -f "$1"); shift
cd /repo && git diff --quiet || { echo "/repo is dirty"; exit 9; }
trap 'git -C /repo checkout -- . 2>/dev/null' EXIT INT TERM HUP
git -C /repo apply "$PATCH" || exit 9
( cd /verif && "$@" ) > /tmp/try_mutant.$$.log 2>&1; rc=$?
git -C /repo checkout -- .
grep -E "VIOLATION|verdict|KNOWN|INCONCLUSIVE|HARNESS" /tmp/try_mutant.$$.log | head -8
rm -f /tmp/try_mutant.$$.log
echo "exit=$rc"
