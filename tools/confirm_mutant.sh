#!/bin/bash
# usage: confirm_mutant.sh C07 m1   -- confirms a sub-agent's mutant in its scratch worktree and files it under /verif/seeded/
set -u
P=$1; M=$2; WT=/tmp/wt/$P; OUT=$WT/_out
cd $WT || exit 9
git checkout -q -- . ; 
git apply --check $OUT/$M.diff || { echo "patch does not apply"; exit 9; }
/venv/bin/python $OUT/${M}_demo.py $WT >/tmp/wt/$P.$M.clean.log 2>&1; c0=$?
git apply $OUT/$M.diff
/venv/bin/python -m pytest -q -p no:cacheprovider -W ignore --timeout=900 >/tmp/wt/$P.$M.pytest.log 2>&1; t=$?
/venv/bin/python $OUT/${M}_demo.py $WT >/tmp/wt/$P.$M.mut.log 2>&1; c1=$?
git checkout -q -- .
echo "$P $M: demo(clean)=$c0 pytest(mutant)=$t [$(tail -1 /tmp/wt/$P.$M.pytest.log)] demo(mutant)=$c1"
if [ $c0 -eq 0 ] && [ $t -eq 0 ] && [ $c1 -ne 0 ]; then
  D=/verif/seeded/$P-$M; mkdir -p $D
  cp $OUT/$M.diff $D/patch.diff; cp $OUT/${M}_demo.py $D/demo.py
  tail -3 /tmp/wt/$P.$M.mut.log > $D/demo_output_on_mutant.txt
  echo CONFIRMED
else
  echo NOT-CONFIRMED
fi
