#!/usr/bin/env python3
"""Regenerates /verif/MANIFEST.json from the table below (keeps it valid at all times)."""
import json, os
V = os.path.dirname(os.path.dirname(os.path.abspath(__file__)))
props = [json.loads(l) for l in open(os.path.join(V, 'properties.jsonl'))]
TECH = 'symbolic execution of the real code with z3 (proxy numbers, all paths), counterexamples replayed natively'
CLAIMED = {
 'C07': dict(level='model_checking', ref='5/C07',
   text='Per-level lemmas on the sliced loop bodies of the real forward and inverse descents, discharged by z3 from every orientation state with r, d, y symbolic, give by induction that index -> cell is a bijection onto the 2^m grid for every density; box clause with symbolic bounds; bounded whole-function exploration of GetImage (all paths, N*m <= 8 quick / 12 thorough). Bounded in N (<=4 quick, <=5 thorough); floats modelled as reals.',
   note='z3; CPython; the symex proxies/shims (numpy -> tagged lists, exact math.isclose, int() truncation); the induction over levels and the counting argument are on paper (DESIGN.md 5/C07); binary64 exactness for N*m <= 50 is an assumption'),
 'C08': dict(level='model_checking', ref='5/C08',
   text='Gray-order adjacency, facing entry/exit corners and their persistence proved per level from every orientation state on the sliced real loop body (z3), which by induction gives face-adjacency of consecutive cells at every density; bounded whole-function adjacency/nesting and the Hoelder inequality itself on all path pairs for small N*m.',
   note='z3; symex shims; the passage from adjacency+nesting to the constant 2*sqrt(N+3) beyond the directly checked densities is the cited classical argument'),
 'C09': dict(level='model_checking', ref='5/C09',
   text='Per-level simulation lemmas in both directions (inverse decodes what forward encodes and vice versa) on the sliced real loop bodies from every orientation state; N=1 and box<->cube maps with symbolic bounds (also after SetBounds); bounded whole-function round trips with symbolic y and x over all paths.',
   note='z3; symex shims; induction over levels on paper; floats as reals'),
 'C17': dict(level='model_checking', ref='5/C17',
   text='Self-composition on one real Evolvent object: all operation sequences up to length 3 (N<=2 quick, N<=3 thorough) with symbolic arguments in float-array, list and int-array containers; last query compared term-wise with a fresh object, arguments and earlier results checked for modification through the object graph.',
   note='z3; the NPShim model of numpy copy/aliasing/dtype-on-store semantics (np.copy, np.array, np.asarray, element store into int arrays) is trusted and tied to real numpy by the native replays'),

 'C02': dict(level='model_checking', ref='5/C02',
   text='Three solver-decided layers on the real code: (K1) CalculateGlobalR / CalculateM / CalculateNextPointCoordinate / CalculateDelta / FirstIteration against the statement\'s formulas for all real inputs (exact non-linear real arithmetic, N<=5 thorough); (L2) one real DoGlobalIteration from an arbitrary state satisfying the representation invariant (symbolic coordinates, values, M, r; <=3 evaluated trials; abstract arithmetic with sound axioms): chosen interval maximal, rule point, strictly inside, invariant re-established, so by induction every iteration index is covered; (L3) reachable concrete prefixes followed by arbitrary objective values through the public interface, checked against an independent reference implementation of the decision rule.',
   note='z3 (QF_NRA from scratch per query for L3/K1; UF+LRA abstraction for L2); CPython; symex proxies; QueueStub contract model of depq.DEPQ and EvolventStub (N>=2) in L2; induction over iterations on paper; floats as reals'),

 'C03': dict(level='model_checking', ref='5/C03',
   text='(i) CheckStopCondition against the stop rule and the ranking function itersLimit-iterations for all values (solver); (ii) one real iteration from an arbitrary invariant state: iterations, reported trials and evaluations advance by one, accuracy = min(previous, length of the subdivided interval); (iii) the real Process.Solve from an arbitrary invariant state with symbolic eps / itersLimit and room for at most one more iteration: no evaluation once the stop condition holds, exactly one otherwise, nothing swallowed; (iv) scenarios through the public interface with symbolic eps in (0,2) and arbitrary objective values (fresh itersLimit 1..3; reachable prefixes with binding budget; batches then Solve; Solve twice) against the stop rule recomputed from the observed history. (ii)+(iii)+(i) give termination and exactness for every run length by induction.',
   note='z3; symex proxies; QueueStub / EvolventStub in the symbolic-state jobs; induction on paper; floats as reals (interval underflow below float resolution is outside)'),
 'C04': dict(level='model_checking', ref='5/C04',
   text='One real iteration from an arbitrary invariant state with all values symbolic (ties included): the reported best is an item of the record, owns its value, nothing evaluated is smaller, a strictly better trial takes over; plus scenarios through the public interface (fresh and reachable prefixes + arbitrary values, mixed batches and Solve, a second live solver iterated in between) in which the optimum clauses are checked inside every listener callback, in polled, kept and returned Solutions (also after local refinement under the minimize stub, with a Problem that returns new value holders, in a very narrow box and when the accuracy criterion ends the run) against the log of completed evaluations.',
   note='z3; symex proxies; stubs as in C02; refinement through the minimize contract stub; NaN values outside'),
 'C06': dict(level='model_checking', ref='5/C06',
   text='One real iteration from an arbitrary invariant state: exactly one new item linked into the subdivided interval, both new lengths (x-x_left)^(1/N), frame conditions for every other item, own value holder, value = objective at the stored point, point = evolvent image; plus scenarios through the public interface (fresh, reachable prefixes + arbitrary values, failed first trial then resume, second live solver of another dimension) where the whole traversal, links, count, lengths, images and values are compared with the log of completed evaluations.',
   note='z3; symex proxies; stubs as in C02; floats as reals'),

 'C11': dict(level='model_checking', ref='5/C11',
   text='2-safety by self-composition in one solver query: several fresh real Solvers on the same objective (reachable concrete prefix + arbitrary values sharing one functional-consistency log), one running Solve alone, the others every composition of the batch total into DoGlobalIteration batches (with and without GetResults polls) followed by Solve twice; itersLimit 3..6, batch totals below / at / beyond the limit and past the accuracy stop, eps symbolic in (0,2). Same trials in the same order, same end point, same result, no trial on a finished solver.',
   note='z3 QF_NRA; symex proxies; QueueStub; runs bounded as stated; floats as reals'),
 'C16': dict(level='model_checking', ref='5/C16',
   text='From an arbitrary invariant state (so the failing evaluation index is arbitrary) the objective raises on the next evaluation inside the real Process.Solve, for seven exception types incl. KeyboardInterrupt, SystemExit, GeneratorExit, a user BaseException and argument-less exceptions: Solve returns, trials/best/value are those of the completed trials, the record keeps its ordering and fidelity clauses and omits the failed point, the failure is printed; plus public-interface scenarios failing on evaluation 2, 3 or later with arbitrary values.',
   note='z3; symex proxies (no steering exceptions: Solve swallows BaseException); one fault per run'),

 'C05': dict(level='model_checking', ref='5/C05',
   text='(BOX) the real Evolvent.GetImage with symbolic bounds lower<upper, all paths of a coarse curve, N<=3 (thorough 4): image inside the box; (RUN) public-interface scenarios with arbitrary objective values: every point handed to the objective in the global phase lies in the box; (REF) the real DoLocalRefinement / Solve(refineSolution=True) with scipy.optimize.minimize replaced by a contract stub that evaluates arbitrary points inside `bounds` iff bounds are passed: every evaluation and the returned point inside the box, never worse than the best global trial, reported value = objective at the reported point, local trial count; includes monotone objectives whose optimum sits on a face of the box.',
   note='z3; symex proxies; the minimize contract (scipy honours bounds) is assumed and tied to real scipy only by the native replays; floats as reals'),
 'C12': dict(level='model_checking', ref='5/C12',
   text='Self-composition in one solver query: the main solver (reachable prefix + arbitrary values) alone versus with another live Solver (same dimension/density on a different box, or another dimension) created alongside and iterated under lock-step / other-first / block schedules, also with both solvers refining under the minimize stub: same trial sequence, record and result, Solutions kept from Solve still report their optimum afterwards, and the other solver makes the trials it makes alone.',
   note='z3 QF_NRA; symex proxies; two solvers, bounded run lengths; refinement through the contract stub'),
 'C13': dict(level='model_checking', ref='5/C13',
   text='Self-composition: a listener-free reference versus solvers carrying a recording listener derived from the base class overriding each of the 16 subsets of callbacks, and the shipped console listener in its three modes with stdout captured (symbolic numbers print as term tags, so report contents are compared exactly): notification count, order and contents, OnMethodStop solution, non-interference on trials and result, console report = solution fields; batches then Solve, N in {1,2}, with and without refinement (stub). For the four painting listeners (matplotlib/sklearn cannot be executed symbolically) only a ground native differential run over 28 configurations is made.',
   note='z3; symex proxies; print stub; minimize stub; the painting listeners are covered by concrete differential runs only'),

 'C19': dict(level='model_checking', ref='5/C19',
   text='The real SearchData, SearchDataDualQueue, CharacteristicsQueue and depq.DEPQ executed on all operation sequences up to a length (plus seeded longer ones) over insert with/without hint, clear, refill, best (global/local), covering lookup and re-computed characteristics, with every coordinate and characteristic a symbolic real (ties included): after every operation the public methods are compared with a reference model (sorted list + multiset of queued entries); bounded queue keeps the maxlen largest keys. Comparison-only arithmetic, decided by z3 over all orderings.',
   note='z3 (linear real arithmetic); symex proxies; nothing stubbed; sequence length and number of insertions bounded as stated'),
 'C20': dict(level='model_checking', ref='5/C20',
   text='Solver.__init__ and Evolvent with SolverParameters.evolventDensity a symbolic integer in 2..12 (descent loop trip count split by the solver), N = 2..5, non-symmetric boxes: the evolvent carries the configured density and every trial coordinate of the first iterations is lower+(j+1/2)(upper-lower)/2^m; GetImage at symbolic density for dyadic and non-dyadic coordinates; whole runs with symbolic trial locations for N=2, m<=3. One-bit-per-level refinement from every orientation state is lemma A of C07.',
   note='z3; symex proxies and evolvent shims; floats as reals (exact for N*m<=50)'),

 'C10': dict(level='proof', ref='5/C10',
   text='Per instance, the real Problem.Calculate is executed on a symbolic point and z3 (QF_NRA) discharges "no point of the box is lower than f*-tol" and "no point farther than 0.5% of the side from x* is lower than f(x*)" as unsat certificates: Hill and Shekel (seeded sample quick / all 2000 thorough) as exact univariate rational functions, GKLS per attraction ball + paraboloid path (n=2, thorough also n=3 sample), Rastrigin / XSquared N<=5 with cos relaxed soundly; clause (a) f(x*)=f* and x* in the box is a ground check for every member of every family (series constructed together). Grishagin, Shekel4, StronginC3: clause (a) only.',
   note='z3 nlsat; symex proxies; exact trig encoding validated on pinned points; float evaluation error assumed far below the tolerances; (b),(c) for Grishagin/Shekel4/StronginC3 out of reach'),
 'C18': dict(level='proof', ref='5/C18',
   text='Hill and Shekel tables row by row (seeded sample quick / all rows thorough): minimum and maximum rows as unsat certificates over the whole range (value within 1e-4, a global extremiser within 1e-4 of the range of the tabulated location), Lipschitz rows via the derivative of the rational function the real code produced (|f\'|<=L(1+1e-3) unsat of the negation, >=L(1-1e-3) sat); metadata of every instance of every family as ground facts (stated as such).',
   note='z3 nlsat; symex proxies; symbolic differentiation of the produced term; metadata half needs no solver'),

 'C14': dict(level='model_checking', ref='5/C14',
   text='Ground facts for all 400 (n,k), each function constructed twice in a row: minimisers in the box, disjoint balls, class distance and radius, f_1=-1<f_i, declared optimum = minimiser 1, data bit-identical to the committed reference record of the pinned tree; for a sample of functions (n=2, thorough also n=3) the real CalculateDFunction executed on a symbolic point, one path per attraction ball plus the paraboloid path, with z3 deciding for every point: paraboloid identity outside the balls, value >= f_i inside ball i, prescribed value at the centre, cubic meets paraboloid on the sphere.',
   note='z3 nlsat; symex proxies / NPShim; the generator runs natively (no inputs but (n,k)); equality with the original C generator is not decidable offline'),
 'C15': dict(level='model_checking', ref='5/C15',
   text='Self-composition per family instance: P(x); evaluations of a sibling of the same family, of another family, of P elsewhere / with one coordinate kept; P(x) again -- with x, x\' symbolic points of the box: the two values are equal terms (solver), the supplied holder is returned and filled, the earlier holder keeps its value, the point and a deep snapshot of the problem object and generation tables are unchanged; the same sequences on concrete points compared with values computed in a clean forked process (history independence). Hill, Shekel, Shekel4, Grishagin, GKLS, Rastrigin, XSquared, StronginC3.',
   note='z3; symex proxies; unmodelled functions (exp, sin of non-multiples of pi, sqrt outside GKLS) are opaque functions of their argument term, which is sound for equality of two evaluations'),

 'C01': dict(level='model_checking', ref='5/C01',
   text='A chain of solver obligations on the real code: the power-mean fact PM_N (N<=5), L1 "the characteristic computed by the real CalculateGlobalR is minus a valid scaled lower bound of any Hoelder-continuous objective over the interval" (interior and both boundary forms, all real inputs), L2 "an interval shorter than eps has characteristic < 2 eps", L3 = C02 (kernels = formulas, M running maximum floored at 1, maximal characteristic chosen from up-to-date values: kernels + one step from the invariant), L4 = C03 (stop rule), composed on paper into the eps-optimality bound; plus a bounded end-to-end twin through the public interface (N=1, <=5 trials, eps, L and all objective values symbolic under the Lipschitz condition) against the minimum of the smallest L-Lipschitz interpolant with M recomputed from the observed history.',
   note='z3 nlsat; symex proxies; the composition of the lemmas and the N>=2 statement with the grid term rest on the cited theorem (Strongin & Sergeyev) and on C07/C08; floats as reals'),
}
checks = []
for p in props:
    c = CLAIMED.get(p['id'])
    if not c:
        continue
    checks.append({
        'property_id': p['id'],
        'quick_cmd': './check %s --tier quick' % p['id'],
        'thorough_cmd': './check %s --tier thorough' % p['id'],
        'evidence_file': '/verif/evidence/%s.json' % p['id'],
        'replay_cmd_template': './check %s --replay {path}' % p['id'],
        'engine': 'symex',
        'level_claimed': {'category': c['level'], 'text': c['text'], 'design_ref': c['ref']},
        'level_note': c['note'],
        'technique': c.get('technique', TECH),
    })
NA = {}
na = [{'property_id': p['id'], 'reason': NA.get(p['id'], 'check not built yet (work in progress; see DESIGN.md section 5)')}
      for p in props if p['id'] not in CLAIMED]
m = {
 'version': 1, 'setup_cmd': './setup.sh',
 'hooks': {'guard': 'IOPT_VERIF', 'enable': 'no source hooks are needed: the checks install their stubs into the imported modules\' namespaces at run time; IOPT_VERIF is reserved and unused',
           'baseline_off_cmd': 'cd /repo && /venv/bin/python -m pytest -ra -q -p no:cacheprovider --timeout=900 --continue-on-collection-errors',
           'source_commits': [], 'add_only': True},
 'engines': [{'name': 'symex', 'path': '/verif/symex', 'serves_properties': sorted(CLAIMED),
              'kind_free_text': 'proxy-based symbolic executor for Python: the repository\'s own byte-code runs on the real interpreter with numbers that wrap z3 terms; DFS over all feasible paths by re-execution; obligations discharged by z3 per path; models replayed natively'}],
 'checks': checks,
 'notes': 'Solver-based checking of the real code; see DESIGN.md. Exit codes: 0 held, 1 violation (replayed natively), 2 harness error, 3 inconclusive.',
 'not_applicable': na,
}
json.dump(m, open(os.path.join(V, 'MANIFEST.json'), 'w'), indent=1)
print('claimed', sorted(CLAIMED), 'not applicable', len(na))
