#!/bin/bash
# runs every seeded change against the quick check of the property it was written for; writes seeded/<id>/detection.txt
cd /verif
declare -A OWN=( [D1]=C03 [D2]=C12 [D3]=C05 [D4]=C13 [D5]=C20 [D6]=C07 [D7]=C17 )
for d in seeded/*/; do
  id=$(basename $d)
  [ -n "${1:-}" ] && [[ "$id" != $1* ]] && continue
  p=${OWN[$id]:-${id%%-*}}; p=${p%b}; p=${p%c}; p=${p%d}
  out=$(IOPT_REPO=${IOPT_REPO:-/repo} VERIF_EVIDENCE_DIR=/tmp/ev_sweep VERIF_JOB_WALL=${VERIF_JOB_WALL:-240} tools/try_mutant.sh /verif/$d/patch.diff ./check $p --tier quick 2>&1)
  rc=$(echo "$out" | grep -o "exit=[0-9]*" | tail -1)
  v=$(echo "$out" | grep -m1 VIOLATION)
  echo "$id check=$p $rc $v" | tee $d/detection.txt
done
