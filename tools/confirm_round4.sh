#!/bin/bash
# usage: confirm_round4.sh C05   -- confirms /tmp/out_C05/{patch.diff,demo.py,notes.txt} in the scratch worktree /tmp/wt_C05,
# files it as /verif/seeded/C05d-m1 and removes the worktree
set -u
P=$1; WT=/tmp/wt_$P; OUT=/tmp/out_$P; ID=${P}d-m1
cd $WT || exit 9
git checkout -q -- .
git apply --check $OUT/patch.diff || { echo "patch does not apply"; exit 9; }
PYTHONPATH=$WT /venv/bin/python $OUT/demo.py >/tmp/$ID.clean.log 2>&1; c0=$?
git apply $OUT/patch.diff
/venv/bin/python -m pytest -q -p no:cacheprovider -W ignore --timeout=900 test >/tmp/$ID.pytest.log 2>&1; t=$?
PYTHONPATH=$WT /venv/bin/python $OUT/demo.py >/tmp/$ID.mut.log 2>&1; c1=$?
git checkout -q -- .
echo "$ID: demo(clean)=$c0 pytest(mutant)=$t [$(tail -1 /tmp/$ID.pytest.log)] demo(mutant)=$c1"
if [ $c0 -eq 0 ] && [ $t -eq 0 ] && [ $c1 -ne 0 ]; then
  D=/verif/seeded/$ID; mkdir -p $D
  cp $OUT/patch.diff $D/patch.diff; cp $OUT/demo.py $D/demo.py; cp $OUT/notes.txt $D/notes.txt 2>/dev/null
  tail -3 /tmp/$ID.mut.log > $D/demo_output_on_mutant.txt
  echo CONFIRMED
else
  echo NOT-CONFIRMED
fi
cd /; git -C /repo worktree remove --force $WT; rm -f /tmp/$ID.*.log
