#!/usr/bin/env python3
"""Writes seeded/<id>/meta.json from notes.txt, detection.txt and the table below."""
import json, os
V = os.path.dirname(os.path.dirname(os.path.abspath(__file__)))
OWN = {'D1': 'C03', 'D2': 'C12', 'D3': 'C05', 'D4': 'C13', 'D5': 'C20', 'D6': 'C07', 'D7': 'C17'}
DNEED = {
 'D1': 'NumPy >= 2 (np.infty removed): any construction of a Solver',
 'D2': 'a second Solver instance created after the first obtained its Solution',
 'D3': 'refineSolution=True and an objective decreasing towards the outside of the box',
 'D4': 'a listener derived from the base class that does not override OnMethodStop',
 'D5': 'SolverParameters.evolventDensity different from 10',
 'D6': 'N*m >= 30 and a point within 1e-9 of the end of the curve',
 'D7': 'an integer-typed array passed to GetPreimages / GetInverseImage, then GetImage with N = 1',
}
for d in sorted(os.listdir(os.path.join(V, 'seeded'))):
    p = os.path.join(V, 'seeded', d)
    if not os.path.isdir(p):
        continue
    prop = OWN.get(d, d.split('-')[0].rstrip('bcd'))
    notes = open(os.path.join(p, 'notes.txt')).read().strip() if os.path.exists(os.path.join(p, 'notes.txt')) else ''
    det = open(os.path.join(p, 'detection.txt')).read().strip() if os.path.exists(os.path.join(p, 'detection.txt')) else ''
    origin = 'reverse patch of the fix: commit for defect %s (the defect as found on the pinned tree)' % d if d in OWN else \
        'written by an independent sub-agent that saw only the property text and a scratch worktree of /repo'
    meta = {
        'id': d, 'property': prop, 'origin': origin,
        'needs_to_manifest': DNEED.get(d) or notes,
        'demonstration': 'demo.py <checkout>: exit 0 on the clean tree, non-zero with patch.diff applied' if os.path.exists(os.path.join(p, 'demo.py'))
                         else '/verif/findings/%s_*.py (native demonstration of the original defect)' % d.lower(),
        'confirmed_by': ['git apply --check patch.diff on a clean scratch worktree', 'demo on the clean tree: exit 0',
                         'repository test suite with the patch: same 91 passes as without it', 'demo with the patch: non-zero',
                         'worktree restored and removed (tools/confirm_mutant.sh)'] if d not in OWN else
                        ['git -C /repo apply <patch> ; the check of the property ; git -C /repo checkout -- .  (tools/try_mutant.sh)'],
        'last_detection_sweep': det,
    }
    json.dump(meta, open(os.path.join(p, 'meta.json'), 'w'), indent=1)
print('ok')
